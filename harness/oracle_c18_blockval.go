package main

import (
	"html/template"
	"strconv"

	plush "github.com/gobuffalo/plush/v5"
)

// C18, block-value programs: the quantifier's "random placement of comment tags" / "every way of cutting a
// statement sequence into tags" also covers blocks whose VALUE is used as a value instead of being printed
// only. A third of the template programs therefore contain
//
//   - functions (g1, g2) whose body holds text, output tags, printing blocks and code statements, with an
//     optional guarded return somewhere and an optional return at the end (so a call may fall off the end of
//     the body: its value is what the block evaluated to),
//   - variables (u1..u3) bound with let to the value of an if / else-if / else expression or of a for
//     expression whose blocks hold text, output tags and code statements (0..2 of them),
//   - block helper calls  wrap() { ... }  (the helper receives the rendered block as a string),
//
// and USE these values where their shape matters: operand of a string concatenation, condition of an if,
// operand of ! && || == !=, argument of out-tags. Names follow the scoping rules of the first generator.
// Nothing here is layout: the text pieces and <%= e %> tags are statements of the program, the layouts move
// only white space, line comments, comment tags and tag seams around them.

func c18Wrap(help plush.HelperContext) (template.HTML, error) {
	if !help.HasBlock() {
		return "[no block]", nil
	}
	s, err := help.Block()
	if err != nil {
		return "", err
	}
	return template.HTML("[" + s + "]"), nil
}

func (g *c18G) textStmt() *c18Stmt {
	return &c18Stmt{ID: g.id(), Kind: 'H', Text: Pick(g.r, []string{"yes", "no", ", ", "x", " ", "<i>", "0", "\n"})}
}

// a block whose value matters: 0..2 statements, text more likely than in the first generator
func (g *c18G) valBlock(sc c18Scope) []*c18Stmt {
	defer g.snap()()
	var out []*c18Stmt
	for n := []int{0, 1, 1, 1, 2, 2}[g.r.Intn(6)]; n > 0; n-- {
		if g.r.Chance(55) {
			out = append(out, g.textStmt())
		} else {
			out = append(out, g.stmt(sc))
		}
	}
	return out
}

func (g *c18G) bvStmt(sc c18Scope) *c18Stmt {
	s := &c18Stmt{ID: g.id(), Kind: 's'}
	sub := sc
	sub.depth++
	k := g.r.Intn(100)
	switch {
	case k < 28 && !sc.inFn: // a function whose body is more than a computation
		s.Owner = "fn"
		f := "g" + strconv.Itoa(g.r.Intn(2)+1)
		sub.inFn, sub.inLoop, sub.print, sub.text = true, false, true, true
		s.Elems = c18T("let", f, "=", Pick(g.r, []string{"fn", "func"}), "(", "x", ",", "y", ")", "{")
		restore := g.snap()
		g.ints = append(append([]string{}, g.ints...), "x", "y")
		g.fns, g.vfns = nil, nil
		body := g.valBlock(sub)
		ret := func() *c18Stmt {
			e := g.intE(1)
			if g.r.Chance(40) {
				e = g.strE(0)
			} else if g.r.Chance(15) {
				e = g.boolE(0)
			}
			return &c18Stmt{ID: g.id(), Kind: 's', Elems: c18T(append([]string{"return"}, e...)...)}
		}
		if g.r.Chance(40) { // a guarded return: the call may or may not fall off the end
			gr := &c18Stmt{ID: g.id(), Kind: 's', Owner: "if"}
			gr.Elems = c18T(append(append([]string{"if", "("}, g.boolE(1)...), ")", "{")...)
			gr.Elems = append(gr.Elems, c18Elem{IsBlk: true, Block: []*c18Stmt{ret()}}, c18Elem{Tok: "}"})
			i := g.r.Intn(len(body) + 1)
			body = append(body[:i:i], append([]*c18Stmt{gr}, body[i:]...)...)
		}
		if g.r.Chance(30) {
			body = append(body, ret())
		}
		restore()
		s.Elems = append(s.Elems, c18Elem{IsBlk: true, Block: body}, c18Elem{Tok: "}"})
		if !c18Has17(g.vfns, f) {
			g.vfns = append(g.vfns, f)
		}
	case k < 62: // let u = if ...
		s.Owner = "if"
		u := g.newVar("u")
		sub.print = true
		sub.text = sc.inFn
		s.Elems = c18T(append(append([]string{"let", u, "=", "if", "("}, g.boolE(1)...), ")", "{")...)
		s.Elems = append(s.Elems, c18Elem{IsBlk: true, Block: g.valBlock(sub)}, c18Elem{Tok: "}"})
		if g.r.Chance(25) {
			s.Elems = append(s.Elems, c18T(append(append([]string{"else", "if", "("}, g.boolE(1)...), ")", "{")...)...)
			s.Elems = append(s.Elems, c18Elem{IsBlk: true, Block: g.valBlock(sub)}, c18Elem{Tok: "}"})
		}
		if g.r.Chance(65) {
			s.Elems = append(s.Elems, c18T("else", "{")...)
			s.Elems = append(s.Elems, c18Elem{IsBlk: true, Block: g.valBlock(sub)}, c18Elem{Tok: "}"})
		}
		if !c18Has17(g.vals, u) {
			g.vals = append(g.vals, u)
		}
	case k < 74: // let u = for ...
		s.Owner = "for"
		u := g.newVar("u")
		sub.print, sub.inLoop = true, true
		sub.text = sc.inFn
		v := "v" + strconv.Itoa(sc.depth)
		s.Elems = c18T(append(append([]string{"let", u, "=", "for", "(", v, ")", "in"}, g.arrE()...), "{")...)
		restore := g.snap()
		g.ints = append(append([]string{}, g.ints...), v)
		body := g.valBlock(sub)
		restore()
		s.Elems = append(s.Elems, c18Elem{IsBlk: true, Block: body}, c18Elem{Tok: "}"})
		if !c18Has17(g.vals, u) {
			g.vals = append(g.vals, u)
		}
	case k < 84 && (!sc.inFn || sc.text): // a block helper: the block is rendered for the helper
		s.Owner = "helper"
		s.Print = sc.print
		sub.print = true
		sub.text = sc.inFn
		s.Elems = c18T("wrap", "(", ")", "{")
		s.Elems = append(s.Elems, c18Elem{IsBlk: true, Block: g.valBlock(sub)}, c18Elem{Tok: "}"})
	case len(g.vals)+len(g.vfns) > 0 && (!sc.inFn || sc.text): // the value as an operand, in an output tag
		s.Kind = 'E'
		e := append([]string{Pick(g.r, []string{`"<"`, `"a"`, `""`}), "+"}, g.valE()...)
		if g.r.Chance(70) {
			e = append(e, "+", Pick(g.r, []string{`">"`, `"b"`}))
		}
		s.Elems = c18T(e...)
	default:
		return g.stmt(c18Scope{depth: 3, inLoop: sc.inLoop, inFn: sc.inFn, print: sc.print, text: sc.text})
	}
	return s
}

// a printing if that shows whether cond holds
func (g *c18G) truthStmt(cond []string) *c18Stmt {
	s := &c18Stmt{ID: g.id(), Kind: 's', Owner: "if", Print: true}
	s.Elems = c18T(append(append([]string{"if", "("}, cond...), ")", "{")...)
	s.Elems = append(s.Elems, c18Elem{IsBlk: true, Block: []*c18Stmt{{ID: g.id(), Kind: 'H', Text: "T"}}}, c18Elem{Tok: "}"})
	s.Elems = append(s.Elems, c18T("else", "{")...)
	s.Elems = append(s.Elems, c18Elem{IsBlk: true, Block: []*c18Stmt{{ID: g.id(), Kind: 'H', Text: "F"}}}, c18Elem{Tok: "}"})
	return s
}

// observe the block values that are in scope at the end of the program: printed, concatenated, as a condition
func (g *c18G) bvObserve(prog []*c18Stmt) []*c18Stmt {
	var es [][]string
	for _, v := range g.vals {
		es = append(es, []string{v})
	}
	for _, f := range g.vfns {
		es = append(es, []string{f, "(", Pick(g.r, []string{"a", "b", "n", "3", "12"}), ",", Pick(g.r, []string{"a", "b", "n", "0"}), ")"})
	}
	for _, e := range es {
		prog = append(prog, &c18Stmt{ID: g.id(), Kind: 'H', Text: "/"})
		switch g.r.Intn(4) {
		case 0:
			prog = append(prog, &c18Stmt{ID: g.id(), Kind: 'E', Elems: c18T(e...)})
		case 1:
			prog = append(prog, g.truthStmt(e))
		default:
			prog = append(prog, &c18Stmt{ID: g.id(), Kind: 'E', Elems: c18T(append(append([]string{`"<"`, "+"}, e...), "+", `">"`)...)})
			if g.r.Bool() {
				prog = append(prog, g.truthStmt(e))
			}
		}
	}
	return prog
}

// ---- comment-tag layouts ----

// every boundary of the program (statement seams, after "{", before "}"), text neighbours included
func c18Boundaries(items []c18It) []int {
	var out []int
	for _, it := range items {
		if it.K == 'S' || it.K == 'O' || it.K == 'C' {
			out = append(out, it.ID)
		}
	}
	return out
}

// canonical layout (every boundary cut) with one <%# %> comment tag at each of the given boundaries
func c18CommentLayout(ids []int, text string) *c18Layout {
	l := c18NewLayout()
	for _, id := range ids {
		l.B[id] = c18Dec{Comments: []string{text}}
	}
	return l
}

// the systematic comment-tag layouts of one program: a tag at every boundary, and a single tag at each of
// up to max boundaries (all of them when there are no more than max, else a random choice)
func c18CommentLayouts(r *Rng, items []c18It, max int) []*c18Layout {
	bs := c18Boundaries(items)
	if len(bs) == 0 {
		return nil
	}
	out := []*c18Layout{c18CommentLayout(bs, " note ")}
	if len(bs) <= max {
		for _, id := range bs {
			out = append(out, c18CommentLayout([]int{id}, " note "))
		}
		return out
	}
	for n := 0; n < max; n++ {
		out = append(out, c18CommentLayout([]int{bs[r.Intn(len(bs))]}, Pick(r, []string{" note ", "", " } ", "x"})))
	}
	return out
}

// distribution tags: which block-value constructs a program contains
func c18BVTags(items []c18It) []string {
	seen := map[string]bool{}
	var toks []string
	for _, it := range items {
		if it.K == 't' {
			toks = append(toks, it.S)
		}
	}
	for i, t := range toks {
		switch {
		case t == "wrap":
			seen["block-value:helper-block"] = true
		case t == "let" && i+3 < len(toks) && toks[i+1][0] == 'g':
			seen["block-value:fn-with-text-or-open-end"] = true
		case t == "let" && i+3 < len(toks) && toks[i+1][0] == 'u' && toks[i+3] == "if":
			seen["block-value:let-if"] = true
		case t == "let" && i+3 < len(toks) && toks[i+1][0] == 'u' && toks[i+3] == "for":
			seen["block-value:let-for"] = true
		}
	}
	var out []string
	for _, k := range []string{"block-value:fn-with-text-or-open-end", "block-value:let-if", "block-value:let-for", "block-value:helper-block"} {
		if seen[k] {
			out = append(out, k)
		}
	}
	if len(out) > 0 {
		out = append(out, "block-value:program")
	}
	return out
}
