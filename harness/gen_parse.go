package main

import (
	"os"
	"path/filepath"
	"regexp"
	"strings"
)

// Token vocabulary (spellings) for the exhaustive / random token streams of C03, C18 and the
// `parse` correspondence stream.
var vocab = []string{
	"a", "a.b", "b", "1", "1.5", `"s"`, "`r`", "=", "+", "-", "!", "*", "/", "<", "<=", ">", ">=", "==", "!=",
	"&&", "||", "~=", ",", ";", ":", "(", ")", "{", "}", "[", "]", "fn", "let", "true", "false", "if", "else",
	"return", "for", "in", "continue", "break", "%>", "<%", "<%=", "<%#", ".", "&", "nil",
	"99999999999999999999", "1.2.3", "#c\n", "x%>y",
}

// a smaller core for the deeper exhaustive level
var vocabCore = []string{
	"a", "1", `"s"`, "=", "+", "!", "(", ")", "{", "}", "[", "]", ",", ":", "fn", "let", "if", "else", "for", "in",
	"break", "return", "%>", "<%", "<%=", "<%#", ".", "a.b",
}

type framing struct{ pre, post string }

var framings = []framing{
	{"<% ", " %>"},
	{"<%= ", " %>"},
	{"<% ", ""},
	{"<% if (true) { %>t<% ", " %><% } %>"},
	{"<% for (x) in xs { ", " } %>"},
	{"<%# ", " %>"},
	{"<% let f = fn(p) { ", " } %>"},
}

func joinToks(ts []string) string { return strings.Join(ts, " ") }

// enumerate all sequences of length 0..k over voc, in every framing
func enumTokenSeqs(voc []string, k int, emit func(src string)) {
	idx := make([]int, k)
	var rec func(depth, n int)
	cur := make([]string, 0, k)
	rec = func(depth, n int) {
		if depth == n {
			body := joinToks(cur)
			for _, f := range framings {
				emit(f.pre + body + f.post)
			}
			return
		}
		for i := range voc {
			idx[depth] = i
			cur = append(cur, voc[i])
			rec(depth+1, n)
			cur = cur[:len(cur)-1]
		}
	}
	for n := 0; n <= k; n++ {
		rec(0, n)
	}
}

var tmplRe = regexp.MustCompile("(?s)`([^`]*<%[^`]*)`|\"((?:[^\"\\\\\n]|\\\\.)*<%(?:[^\"\\\\\n]|\\\\.)*)\"")

// templates found in the repository's own tests (read from the working tree on every run)
func repoTemplates() []string {
	var out []string
	seen := map[string]bool{}
	files, _ := filepath.Glob("/repo/*_test.go")
	more, _ := filepath.Glob("/repo/*/*_test.go")
	files = append(files, more...)
	for _, f := range files {
		b, err := os.ReadFile(f)
		if err != nil {
			continue
		}
		for _, m := range tmplRe.FindAllStringSubmatch(string(b), -1) {
			s := m[1]
			if s == "" {
				s = strings.NewReplacer(`\n`, "\n", `\"`, `"`, `\t`, "\t", `\\`, `\`).Replace(m[2])
			}
			if len(s) > 400 || seen[s] {
				continue
			}
			seen[s] = true
			out = append(out, s)
		}
	}
	if len(out) == 0 {
		out = []string{`<%= 1 %>`, `<% if (a) { %>x<% } else { %>y<% } %>`, `<% for (i,v) in xs { %><%= v %><% } %>`}
	}
	return out
}

var mutBytes = []byte("<%>=#\\\"`(){}[],.;: \n\tafx01-!&|~")

func mutate(r *Rng, s string) string {
	b := []byte(s)
	for n := r.Range(1, 3); n > 0; n-- {
		switch r.Intn(5) {
		case 0: // delete a byte
			if len(b) > 0 {
				i := r.Intn(len(b))
				b = append(b[:i:i], b[i+1:]...)
			}
		case 1: // insert a byte
			i := r.Intn(len(b) + 1)
			c := mutBytes[r.Intn(len(mutBytes))]
			b = append(b[:i:i], append([]byte{c}, b[i:]...)...)
		case 2: // replace
			if len(b) > 0 {
				b[r.Intn(len(b))] = mutBytes[r.Intn(len(mutBytes))]
			}
		case 3: // truncate
			if len(b) > 0 {
				b = b[:r.Intn(len(b))]
			}
		case 4: // duplicate a slice
			if len(b) > 1 {
				i := r.Intn(len(b))
				j := i + r.Intn(len(b)-i)
				b = append(b[:j:j], append(append([]byte{}, b[i:j]...), b[j:]...)...)
			}
		}
	}
	return string(b)
}

func randomSoup(r *Rng, maxLen int) string {
	n := r.Range(0, maxLen)
	ts := make([]string, n)
	for i := range ts {
		ts[i] = Pick(r, vocab)
	}
	f := Pick(r, framings)
	sep := []string{" ", "", "\n", " "}
	var sb strings.Builder
	sb.WriteString(f.pre)
	for i, t := range ts {
		if i > 0 {
			sb.WriteString(Pick(r, sep))
		}
		sb.WriteString(t)
	}
	sb.WriteString(f.post)
	return sb.String()
}

func nested(depth int, open, close string) string {
	return "<%= " + strings.Repeat(open, depth) + "1" + strings.Repeat(close, depth) + " %>"
}

// genParseInputs: the inputs of C03 and of the `parse` correspondence stream.
func genParseInputs(cfg Config, emit func(src string)) {
	r := NewRng(cfg.Seed).Fork(3)
	// exhaustive token sequences
	enumTokenSeqs(vocab, cfg.N(2, 3), emit)
	enumTokenSeqs(vocabCore, cfg.N(3, 4), emit)
	// random soup
	for i := 0; i < cfg.N(20000, 400000); i++ {
		emit(randomSoup(r, 40))
	}
	// byte mutations of the repo's own templates
	tmpls := repoTemplates()
	for i := 0; i < cfg.N(20000, 400000); i++ {
		emit(mutate(r, Pick(r, tmpls)))
	}
	// nesting
	for _, d := range []int{1, 8, 64, 256} {
		emit(nested(d, "(", ")"))
		emit(nested(d, "[", "]"))
		emit(nested(d, "!", ""))
		emit("<% " + strings.Repeat("if (true) { ", d) + strings.Repeat(" } ", d) + "%>")
		emit("<% " + strings.Repeat("if (true) { ", d))
		emit(strings.Repeat("<% for (x) in y { %>", d) + strings.Repeat("<% } %>", d))
		emit("<%= " + strings.Repeat("f(", d) + strings.Repeat(")", d) + " %>")
		emit("<%= " + strings.Repeat("{a: ", d) + "1" + strings.Repeat("}", d) + " %>")
	}
}

// exhaustive short byte strings over the text-scanner alphabet
var textAlphabet = []byte("<%>\\=#\"a\n")

// … and over an alphabet with the NUL byte, which the scanner uses as its end-of-input sentinel
var nulAlphabet = []byte{0, '<', '%', '>', '=', 'a', ' ', '"'}

func enumTexts(k int, emit func(src string)) { enumOver(textAlphabet, k, emit) }

func enumOver(textAlphabet []byte, k int, emit func(src string)) {
	buf := make([]byte, 0, k)
	var rec func(n int)
	rec = func(n int) {
		if len(buf) == n {
			emit(string(buf))
			return
		}
		for _, c := range textAlphabet {
			buf = append(buf, c)
			rec(n)
			buf = buf[:len(buf)-1]
		}
	}
	for n := 0; n <= k; n++ {
		rec(n)
	}
}

func init() {
	corrStreams["lex-text"] = func(cfg Config, emit func(string)) {
		enumTexts(cfg.N(5, 6), func(s string) { emit("lex " + hx(s)) })
	}
	corrStreams["lex-nul"] = func(cfg Config, emit func(string)) {
		enumOver(nulAlphabet, cfg.N(5, 6), func(s string) { emit("lex " + hx(s)) })
	}
	corrStreams["parse-nul"] = func(cfg Config, emit func(string)) {
		enumOver(nulAlphabet, cfg.N(4, 5), func(s string) { emit("parse " + hx(s)) })
	}
	corrStreams["parse-text"] = func(cfg Config, emit func(string)) {
		enumTexts(cfg.N(4, 6), func(s string) { emit("parse " + hx(s)) })
	}
	corrStreams["parse-tok"] = func(cfg Config, emit func(string)) {
		genParseInputs(cfg, func(s string) { emit("parse " + hx(s)) })
	}
	corrStreams["lex-tok"] = func(cfg Config, emit func(string)) {
		c2 := cfg
		genParseInputs(Config{Tier: "quick", Seed: c2.Seed}, func(s string) { emit("lex " + hx(s)) })
	}
}
