package main

import (
	"fmt"
	"regexp"
	"sort"
	"strconv"
	"strings"
	"time"

	plush "github.com/gobuffalo/plush/v5"
)

// C18 oracle (model-free, metamorphic): all layouts of one token list render identically.
//
// A program is a tree of statements whose leaves are TOKENS (never re-spelled). A layout decides, for
// every gap between two tokens, the separator (nothing / space / tab / LF / CRLF / "# comment" + LF), and
// for every boundary (between two statements, after a block's "{", before its "}") whether the tag is cut
// there ("%>", optional <%# %> comment tags, "<%") or the neighbours share one tag (separated by white
// space, a line comment or - between statements - ";"). Text and <%= e %> output tags stay what they are.
// Every layout is compared with the canonical one (one statement per tag, single spaces).

// ---- program tree ----

type c18Elem struct {
	Tok   string
	Block []*c18Stmt
	IsBlk bool
}

type c18Stmt struct {
	ID    int
	Kind  byte   // 's' code statement, 'E' output tag, 'H' literal text
	Print bool   // code statement whose tag opens with <%= (printing if / for)
	Owner string // compound keyword (if, for, fn) for the family id
	Elems []c18Elem
	Text  string
}

// ---- flat items ----

type c18It struct {
	K   byte   // 't' token, 'S' 'O' 'C' boundaries, 'H' text, 'E'/'e' output tag begin/end, 'P' next tag opens with <%=
	S   string // token / text
	ID  int    // token: stable id ; boundary: stable id
	Cls string // token class for family ids
}

func c18TokClass(t, owner string) string {
	switch {
	case t == "}" || t == "{":
		return t + owner
	case t[0] == '"' || t[0] == '`':
		return "str"
	case t[0] >= '0' && t[0] <= '9':
		return "num"
	case t == "let" || t == "if" || t == "else" || t == "for" || t == "in" || t == "fn" || t == "return" || t == "break" || t == "continue" || t == "true" || t == "false":
		return t
	case (t[0] >= 'a' && t[0] <= 'z') || (t[0] >= 'A' && t[0] <= 'Z') || t[0] == '_':
		return "id"
	}
	return t
}

func c18Flatten(seq []*c18Stmt, out *[]c18It) {
	for i, s := range seq {
		if i > 0 {
			*out = append(*out, c18It{K: 'S', ID: s.ID*1000 + 999})
		}
		switch s.Kind {
		case 'H':
			*out = append(*out, c18It{K: 'H', S: s.Text, ID: s.ID * 1000})
		case 'E':
			*out = append(*out, c18It{K: 'E', ID: s.ID * 1000})
			for j, e := range s.Elems {
				*out = append(*out, c18It{K: 't', S: e.Tok, ID: s.ID*1000 + j + 1, Cls: c18TokClass(e.Tok, "")})
			}
			*out = append(*out, c18It{K: 'e', ID: s.ID*1000 + 998})
		default:
			if s.Print {
				*out = append(*out, c18It{K: 'P', ID: s.ID * 1000})
			}
			for j, e := range s.Elems {
				if e.IsBlk {
					*out = append(*out, c18It{K: 'O', ID: s.ID*1000 + j + 1})
					c18Flatten(e.Block, out)
					*out = append(*out, c18It{K: 'C', ID: s.ID*1000 + j + 501})
					continue
				}
				*out = append(*out, c18It{K: 't', S: e.Tok, ID: s.ID*1000 + j + 1, Cls: c18TokClass(e.Tok, s.Owner)})
			}
		}
	}
}

// ---- layouts ----

type c18Dec struct {
	Merge    bool     // share the tag (false = cut)
	Sep      string   // separator when merged
	Comments []string // <%# %> tags written at the boundary whenever it ends up outside a tag
}

type c18Layout struct {
	B     map[int]c18Dec // boundary id -> decision (missing: cut, no comment tags)
	G     map[int]string // token id -> separator before it inside a tag (missing: " ")
	Open  map[int]string // token id -> separator after the tag opener when the token is first in its tag (missing " ")
	Close map[int]string // token id -> separator before "%>" when the token is last in its tag (missing " ")
}

func c18NewLayout() *c18Layout {
	return &c18Layout{B: map[int]c18Dec{}, G: map[int]string{}, Open: map[int]string{}, Close: map[int]string{}}
}

func (l *c18Layout) clone() *c18Layout {
	n := c18NewLayout()
	for k, v := range l.B {
		n.B[k] = v
	}
	for k, v := range l.G {
		n.G[k] = v
	}
	for k, v := range l.Open {
		n.Open[k] = v
	}
	for k, v := range l.Close {
		n.Close[k] = v
	}
	return n
}

func c18IdByte(c byte) bool {
	return c >= 'a' && c <= 'z' || c >= 'A' && c <= 'Z' || c >= '0' && c <= '9' || c == '_' || c == '-' || c == '.'
}

// would the two spellings read differently when written with nothing between them?
func c18Fuse(p, q string) bool {
	if p == "" || q == "" {
		return false
	}
	a, b := p[len(p)-1], q[0]
	if c18IdByte(a) && c18IdByte(b) {
		return true
	}
	switch string([]byte{a, b}) {
	case "==", "<=", ">=", "!=", "&&", "||", "~=", "%>", "<%", "%=", "%#":
		return true
	}
	return b == '#'
}

func c18HasWS(s string) bool { return strings.ContainsAny(s, " \t\n\r") }

// c18Render writes the program in the given layout.
func c18Render(items []c18It, l *c18Layout) string {
	var sb strings.Builder
	inTag := false
	prev := ""  // last token written in the open tag
	prevID := 0 // its id
	pend := ""  // separator requested by merged boundaries since the last token
	hasPend := false
	print := false
	closeTag := func() {
		if inTag {
			sep, ok := l.Close[prevID]
			if !ok {
				sep = " "
			}
			if pend != "" && !strings.Contains(pend, ";") {
				sep = pend
			}
			if sep == "" && c18Fuse(prev, "%>") {
				sep = " "
			}
			sb.WriteString(sep + "%>")
			inTag, pend, hasPend = false, "", false
		}
	}
	for i := 0; i < len(items); i++ {
		it := items[i]
		switch it.K {
		case 'P':
			closeTag()
			print = true
		case 'H':
			closeTag()
			sb.WriteString(it.S)
		case 'E':
			closeTag()
			sb.WriteString("<%=")
			p := "<%="
			first := true
			for i++; items[i].K != 'e'; i++ {
				sep, ok := l.G[items[i].ID]
				if first {
					sep, ok = l.Open[items[i].ID]
				}
				if !ok {
					sep = " "
				}
				if first && strings.HasPrefix(sep, "#") {
					sep = " " + sep
				}
				if sep == "" && c18Fuse(p, items[i].S) {
					sep = " "
				}
				sb.WriteString(sep + items[i].S)
				p, first, prevID = items[i].S, false, items[i].ID
			}
			sep, ok := l.Close[prevID]
			if !ok {
				sep = " "
			}
			if sep == "" && c18Fuse(p, "%>") {
				sep = " "
			}
			sb.WriteString(sep + "%>")
		case 'S', 'O', 'C':
			d := l.B[it.ID]
			// what follows decides whether sharing a tag is possible at all
			j := i + 1
			for j < len(items) && (items[j].K == 'S' || items[j].K == 'O' || items[j].K == 'C') {
				j++
			}
			codeNext := j < len(items) && items[j].K == 't'
			if inTag && d.Merge && codeNext {
				sep := d.Sep
				if strings.Contains(sep, ";") && (it.K != 'S' || j != i+1) {
					sep = "\n" // ";" only directly between two statements
				}
				pend += sep
				hasPend = true
			} else {
				closeTag()
				if it.K == 'S' && items[i-1].K == 'H' && i+1 < len(items) && items[i+1].K == 'H' {
					break // two adjacent pieces of text are ONE run of text: a comment tag here would be inside a statement
				}
				for _, c := range d.Comments {
					sb.WriteString("<%#" + c + "%>")
				}
			}
		case 't':
			if !inTag {
				op := "<%"
				if print {
					op = "<%="
				}
				print = false
				sep, ok := l.Open[it.ID]
				if !ok {
					sep = " "
				}
				if sep == "" && c18Fuse(op, it.S) {
					sep = " "
				}
				if strings.HasPrefix(sep, "#") {
					sep = " " + sep // "<%#" would open a comment tag
				}
				sb.WriteString(op + sep + it.S)
				inTag = true
			} else {
				sep, ok := l.G[it.ID]
				if !ok {
					sep = " "
				}
				if hasPend {
					sep = pend
				}
				if !c18HasWS(sep) && !strings.Contains(sep, ";") && c18Fuse(prev, it.S) {
					sep = " "
				}
				if strings.HasSuffix(sep, ";") && c18Fuse(";", it.S) {
					sep += " "
				}
				sb.WriteString(sep + it.S)
			}
			prev, prevID, pend, hasPend = it.S, it.ID, "", false
		}
	}
	closeTag()
	return sb.String()
}

// ---- environment ----

type c18Person struct {
	Name string
	Age  int
}

func c18Ctx() *plush.Context {
	return plush.NewContextWith(map[string]interface{}{
		"a": 3, "b": 4, "n": 0, "s": "str", "t": "<t>", "a-b": 7,
		"xs": []interface{}{1, 2, 3}, "ys": []interface{}{"x", "y"},
		"m":    map[string]interface{}{"k": 1, "j": "v"},
		"p":    c18Person{Name: "Ann", Age: 30},
		"add":  func(x, y int) int { return x + y },
		"up":   strings.ToUpper,
		"wrap": c18Wrap,
	})
}

var c18LineRe = regexp.MustCompile(`(?m)^line \d+: |line \d+: `)

func c18Obs(src string) string {
	o := safeCall(3*time.Second, func() (string, error) { return plush.Render(src, c18Ctx()) })
	switch o.Kind() {
	case "OK":
		return "OK " + o.Out
	case "ERR":
		return "ERR " + c18LineRe.ReplaceAllString(o.Err.Error(), "")
	case "PANIC":
		return "PANIC " + o.Site + " " + o.Panic
	}
	return "HANG"
}

// ---- generation ----

type c18G struct {
	r      *Rng
	script bool // pure code: no text, no output tags, no printing blocks; values are shown with out(e)
	next   int
	ints   []string
	strs   []string
	arrs   []string
	fns    []string
	// block-value programs (template mode only): the VALUE of a block is used as a value, not only printed
	bv   bool
	vals []string // variables bound to the value of an if / for expression
	vfns []string // functions whose body may hold text / output tags and may fall off its end
}

// snap remembers the names in scope; the returned function forgets every name introduced since
func (g *c18G) snap() func() {
	i, w, a, f, v, vf := g.ints, g.strs, g.arrs, g.fns, g.vals, g.vfns
	return func() { g.ints, g.strs, g.arrs, g.fns, g.vals, g.vfns = i, w, a, f, v, vf }
}

// valE: an expression whose value is what a block evaluated to
func (g *c18G) valE() []string {
	n := len(g.vals) + len(g.vfns)
	if !g.bv || n == 0 {
		return nil
	}
	k := g.r.Intn(n)
	if k < len(g.vals) {
		return []string{g.vals[k]}
	}
	return append(append(append([]string{g.vfns[k-len(g.vals)], "("}, g.intE(0)...), ","), append(g.intE(0), ")")...)
}

func (g *c18G) id() int { g.next++; return g.next }

func c18T(ts ...string) []c18Elem {
	es := make([]c18Elem, len(ts))
	for i, t := range ts {
		es[i] = c18Elem{Tok: t}
	}
	return es
}

func (g *c18G) intE(d int) []string {
	k := g.r.Intn(16)
	if d <= 0 && k >= 6 {
		k = g.r.Intn(6)
	}
	switch k {
	case 0:
		return []string{strconv.Itoa(g.r.Intn(10))}
	case 1:
		return []string{Pick(g.r, []string{"42", "0", "7", "100", "12"})}
	case 2, 3, 4:
		return []string{Pick(g.r, g.ints)}
	case 5:
		return []string{Pick(g.r, []string{"a-b", "p.Age", "a", "zz"})}
	case 6:
		return append(append(append([]string{"("}, g.intE(d-1)...), "+"), append(g.intE(d-1), ")")...)
	case 7:
		return append(append(g.intE(d-1), Pick(g.r, []string{"*", "+", "-", "/"})), g.intE(d-1)...)
	case 8:
		return []string{"len", "(", Pick(g.r, g.arrs), ")"}
	case 9:
		return append(append(append([]string{"add", "("}, g.intE(d-1)...), ","), append(g.intE(d-1), ")")...)
	case 10:
		return []string{Pick(g.r, g.arrs), "[", strconv.Itoa(g.r.Intn(3)), "]"}
	case 11:
		return []string{"m", "[", `"k"`, "]"}
	case 12:
		if len(g.fns) > 0 {
			return append(append(append([]string{Pick(g.r, g.fns), "("}, g.intE(d-1)...), ","), append(g.intE(d-1), ")")...)
		}
		return []string{"b"}
	case 13:
		return append(append(g.intE(d-1), "-"), g.intE(d-1)...)
	case 14:
		return []string{"[", "1", ",", "2", "]", "[", "1", "]"}
	}
	return []string{"1"}
}

func (g *c18G) strE(d int) []string {
	if g.bv && d > 0 && len(g.vals)+len(g.vfns) > 0 && g.r.Chance(25) {
		e := append(g.strE(0), "+")
		e = append(e, g.valE()...)
		if g.r.Bool() {
			e = append(append(e, "+"), g.strE(0)...)
		}
		return e
	}
	k := g.r.Intn(8)
	if d <= 0 && k >= 5 {
		k = g.r.Intn(5)
	}
	switch k {
	case 0:
		return []string{Pick(g.r, []string{`"lit"`, `"<b>"`, `"a b"`, `""`, `"x#y"`, `"1;2"`, `"%>"`})}
	case 1:
		return []string{Pick(g.r, []string{"`raw`", "`a\nb`", "`q\"q`"})}
	case 2, 3:
		return []string{Pick(g.r, g.strs)}
	case 4:
		return []string{"p.Name"}
	case 5:
		return append(append(g.strE(d-1), "+"), g.strE(d-1)...)
	case 6:
		return append(append([]string{"up", "("}, g.strE(d-1)...), ")")
	case 7:
		return append(append(g.strE(d-1), "+"), g.intE(d-1)...)
	}
	return []string{`"s"`}
}

func (g *c18G) boolE(d int) []string {
	if g.bv && len(g.vals)+len(g.vfns) > 0 && g.r.Chance(30) {
		switch g.r.Intn(8) {
		case 0, 1, 2:
			return g.valE()
		case 3, 4:
			return append([]string{"!"}, g.valE()...)
		case 5:
			return append(append(g.strE(0), Pick(g.r, []string{"==", "!="})), g.valE()...)
		case 6:
			return append(append(g.valE(), Pick(g.r, []string{"==", "!="})), g.strE(0)...)
		}
		return append(append(g.valE(), Pick(g.r, []string{"&&", "||"})), g.boolE(0)...)
	}
	k := g.r.Intn(12)
	if d <= 0 && k >= 8 {
		k = g.r.Intn(8)
	}
	switch k {
	case 0:
		return []string{"true"}
	case 1:
		return []string{"false"}
	case 2, 3, 4:
		return append(append(g.intE(d-1), Pick(g.r, []string{"<", ">", "<=", ">=", "==", "!="})), g.intE(d-1)...)
	case 5:
		return append(append(g.strE(0), Pick(g.r, []string{"==", "!=", "~="})), g.strE(0)...)
	case 6:
		return []string{Pick(g.r, append([]string{"nope"}, g.ints...))}
	case 7:
		return []string{"!", Pick(g.r, g.ints)}
	case 8, 9:
		return append(append(g.boolE(d-1), Pick(g.r, []string{"&&", "||"})), g.boolE(d-1)...)
	case 10:
		return append(append([]string{"!", "("}, g.boolE(d-1)...), ")")
	case 11:
		return append(append([]string{"("}, g.boolE(d-1)...), ")")
	}
	return []string{"true"}
}

func (g *c18G) arrE() []string {
	switch g.r.Intn(5) {
	case 0:
		return []string{"[", "]"}
	case 1:
		return append(append(append([]string{"["}, g.intE(1)...), ","), append(g.intE(0), "]")...)
	case 2:
		return []string{"[", `"p"`, ",", `"q"`, ",", `"r"`, "]"}
	}
	return []string{Pick(g.r, g.arrs)}
}

func (g *c18G) anyE(d int) []string {
	if g.bv && len(g.vals)+len(g.vfns) > 0 && g.r.Chance(30) {
		return g.valE()
	}
	switch g.r.Intn(8) {
	case 0, 1, 2:
		return g.intE(d)
	case 3, 4:
		return g.strE(d)
	case 5:
		return g.boolE(d)
	case 6:
		return g.arrE()
	}
	return []string{"{", `"k"`, ":", "1", ",", "j", ":", Pick(g.r, g.strs), "}"}
}

type c18Scope struct {
	depth  int
	inLoop bool
	inFn   bool
	print  bool // inside a printing block (or top level): output is visible
	text   bool // text and output tags are generated although inside a function body (they are part of its value)
}

func (g *c18G) newVar(kind string) string {
	v := kind + strconv.Itoa(g.r.Intn(3)+1)
	return v
}

func (g *c18G) stmt(sc c18Scope) *c18Stmt {
	if g.bv && sc.depth < 3 && g.r.Chance(30) {
		return g.bvStmt(sc)
	}
	s := &c18Stmt{ID: g.id(), Kind: 's'}
	k := g.r.Intn(100)
	if sc.depth >= 3 && k >= 50 && k < 82 {
		k = g.r.Intn(50)
	}
	switch {
	case k < 16: // let int
		v := g.newVar("i")
		s.Elems = c18T(append([]string{"let", v, "="}, g.intE(2)...)...)
		if !c18Has17(g.ints, v) {
			g.ints = append(g.ints, v)
		}
	case k < 21:
		v := g.newVar("w")
		s.Elems = c18T(append([]string{"let", v, "="}, g.strE(2)...)...)
		if !c18Has17(g.strs, v) {
			g.strs = append(g.strs, v)
		}
	case k < 24:
		v := g.newVar("r")
		s.Elems = c18T(append([]string{"let", v, "="}, g.arrE()...)...)
		if !c18Has17(g.arrs, v) {
			g.arrs = append(g.arrs, v)
		}
	case k < 26:
		s.Elems = c18T(append([]string{"let", "h", "="}, "{", `"k"`, ":", "1", ",", "j", ":", Pick(g.r, g.strs), "}")...)
	case k < 40: // assignment
		v := Pick(g.r, g.ints)
		s.Elems = c18T(append([]string{v, "="}, g.intE(2)...)...)
	case k < 43:
		v := Pick(g.r, g.strs)
		s.Elems = c18T(append([]string{v, "="}, g.strE(1)...)...)
	case k < 46:
		s.Elems = c18T(append([]string{Pick(g.r, g.arrs), "[", strconv.Itoa(g.r.Intn(3)), "]", "="}, g.intE(1)...)...)
	case k < 50:
		s.Elems = c18T(append(append(append([]string{"add", "("}, g.intE(1)...), ","), append(g.intE(0), ")")...)...)
	case k < 64: // if
		s.Owner = "if"
		s.Print = sc.print && g.r.Chance(60) && !g.script
		sub := sc
		sub.depth++
		sub.print = s.Print
		// names introduced in a branch are used inside that branch only (it may not run)
		branch := func(n int) []*c18Stmt {
			defer g.snap()()
			return g.seq(sub, n)
		}
		s.Elems = c18T(append(append([]string{"if", "("}, g.boolE(2)...), ")", "{")...)
		s.Elems = append(s.Elems, c18Elem{IsBlk: true, Block: branch(g.r.Range(0, 3))}, c18Elem{Tok: "}"})
		for g.r.Chance(25) {
			s.Elems = append(s.Elems, c18T(append(append([]string{"else", "if", "("}, g.boolE(1)...), ")", "{")...)...)
			s.Elems = append(s.Elems, c18Elem{IsBlk: true, Block: branch(g.r.Range(0, 2))}, c18Elem{Tok: "}"})
		}
		if g.r.Chance(45) {
			s.Elems = append(s.Elems, c18T("else", "{")...)
			s.Elems = append(s.Elems, c18Elem{IsBlk: true, Block: branch(g.r.Range(0, 3))}, c18Elem{Tok: "}"})
		}
	case k < 76: // for
		s.Owner = "for"
		s.Print = sc.print && g.r.Chance(60) && !g.script
		sub := sc
		sub.depth++
		sub.inLoop = true
		sub.print = s.Print
		v := "v" + strconv.Itoa(sc.depth)
		hdr := []string{"for", "(", v, ")", "in"}
		if g.r.Chance(35) {
			hdr = []string{"for", "(", "k" + strconv.Itoa(sc.depth), ",", v, ")", "in"}
		}
		hdr = append(append(hdr, g.arrE()...), "{")
		s.Elems = c18T(hdr...)
		restore := g.snap()
		g.ints = append(append([]string{}, g.ints...), v)
		body := g.seq(sub, g.r.Range(0, 3))
		if g.r.Chance(40) { // a guarded break / continue somewhere in the body
			bc := &c18Stmt{ID: g.id(), Kind: 's', Owner: "if"}
			bc.Elems = c18T(append(append([]string{"if", "("}, g.boolE(1)...), ")", "{")...)
			bc.Elems = append(bc.Elems, c18Elem{IsBlk: true, Block: []*c18Stmt{{ID: g.id(), Kind: 's', Elems: c18T(Pick(g.r, []string{"break", "continue"}))}}}, c18Elem{Tok: "}"})
			i := g.r.Intn(len(body) + 1)
			body = append(body[:i:i], append([]*c18Stmt{bc}, body[i:]...)...)
		}
		if g.r.Chance(10) {
			body = append(body, &c18Stmt{ID: g.id(), Kind: 's', Elems: c18T(Pick(g.r, []string{"break", "continue"}))})
		}
		restore()
		s.Elems = append(s.Elems, c18Elem{IsBlk: true, Block: body}, c18Elem{Tok: "}"})
	case k < 82 && !sc.inFn: // fn literal
		s.Owner = "fn"
		f := "f" + strconv.Itoa(g.r.Intn(2)+1)
		sub := sc
		sub.depth++
		sub.inFn, sub.inLoop, sub.print, sub.text = true, false, false, false
		s.Elems = c18T("let", f, "=", Pick(g.r, []string{"fn", "func"}), "(", "x", ",", "y", ")", "{")
		restore := g.snap()
		g.ints = append(append([]string{}, g.ints...), "x", "y")
		g.fns, g.vfns = nil, nil // no calls of user functions inside a function body: no recursion
		body := g.seq(sub, g.r.Range(0, 2))
		body = append(body, &c18Stmt{ID: g.id(), Kind: 's', Elems: c18T(append([]string{"return"}, g.intE(1)...)...)})
		restore()
		s.Elems = append(s.Elems, c18Elem{IsBlk: true, Block: body}, c18Elem{Tok: "}"})
		if !c18Has17(g.fns, f) {
			g.fns = append(g.fns, f)
		}
	case k < 94 && !sc.inFn && g.script: // a visible effect
		s.Elems = c18T(append(append([]string{"out", "("}, g.anyE(2)...), ")")...)
	case !sc.inFn && g.script:
		s.Elems = c18T("out", "(", Pick(g.r, []string{`"x"`, `" "`, `"# no comment"`, `"%>"`, `"<%"`, "`\n`"}), ")")
	case k < 94 && (!sc.inFn || sc.text): // output tag
		s.Kind = 'E'
		s.Elems = c18T(g.anyE(2)...)
	case !sc.inFn || sc.text:
		s.Kind = 'H'
		s.Text = Pick(g.r, []string{"x", " ", "\n", "<p>", "a b", "|", ";", "}", "{", "# no comment", "\r\n"})
	default:
		v := Pick(g.r, g.ints)
		s.Elems = c18T(append([]string{v, "="}, g.intE(1)...)...)
	}
	return s
}

func c18Has17(xs []string, x string) bool {
	for _, y := range xs {
		if x == y {
			return true
		}
	}
	return false
}

func (g *c18G) seq(sc c18Scope, n int) []*c18Stmt {
	var out []*c18Stmt
	for i := 0; i < n; i++ {
		out = append(out, g.stmt(sc))
	}
	return out
}

func c18Gen(r *Rng, n int) []*c18Stmt { return c18GenMode(r, n, false) }

// script = true: a pure-code program (the text of a plush script); effects are calls of out(e)
func c18GenMode(r *Rng, n int, script bool) []*c18Stmt {
	g := &c18G{r: r, script: script, ints: []string{"a", "b", "n"}, strs: []string{"s", "t"}, arrs: []string{"xs", "ys"}}
	g.bv = !script && r.Chance(35) // block-value program (oracle_c18_blockval.go)
	prog := g.seq(c18Scope{print: true}, n)
	if g.bv {
		prog = g.bvObserve(prog)
	}
	// observe the variables at the end
	for _, v := range []string{Pick(r, g.ints), Pick(r, g.ints), Pick(r, g.strs), Pick(r, g.arrs)} {
		if script {
			prog = append(prog, &c18Stmt{ID: g.id(), Kind: 's', Elems: c18T("out", "(", v, ")")})
			continue
		}
		prog = append(prog, &c18Stmt{ID: g.id(), Kind: 'H', Text: "/"}, &c18Stmt{ID: g.id(), Kind: 'E', Elems: c18T(v)})
	}
	return prog
}

// ---- random layouts ----

var c18WS = []string{" ", "", "\t", "\n", "\r\n", "  ", " \n ", "\n\n"}
var c18ComTexts = []string{" note", "", " let z = 1", " }", " x = 2 ;", "##", " \"q", " if (", " <% "}

func c18Sep(r *Rng, comments bool) string {
	if comments && r.Chance(12) {
		return Pick(r, []string{"", " ", "\n"}) + "#" + Pick(r, c18ComTexts) + Pick(r, []string{"\n", "\r\n", "\n  "})
	}
	return Pick(r, c18WS)
}

// style: 0 random cuts, 1 everything merged, 2 everything cut
func c18RandLayout(r *Rng, items []c18It, style int, gapComments bool) *c18Layout {
	l := c18NewLayout()
	for _, it := range items {
		switch it.K {
		case 't':
			if r.Chance(60) {
				l.G[it.ID] = c18Sep(r, gapComments)
			}
			if r.Chance(50) {
				l.Open[it.ID] = c18Sep(r, true)
			}
			if r.Chance(50) {
				l.Close[it.ID] = c18Sep(r, true)
			}
		case 'S', 'O', 'C':
			d := c18Dec{}
			switch {
			case style == 1 || (style == 0 && r.Bool()):
				d.Merge = true
				switch k := r.Intn(10); {
				case k < 3:
					d.Sep = "\n"
				case k < 6 && it.K == 'S':
					d.Sep = Pick(r, []string{";", "; ", " ;\n", ";\n", "\t;"})
				default:
					d.Sep = c18Sep(r, true)
				}
			}
			if r.Chance(20) {
				for n := r.Range(1, 2); n > 0; n-- {
					d.Comments = append(d.Comments, Pick(r, []string{" note ", "", " a\nb ", " let z = 1 ", " } ", "x", " if (a) { "}))
				}
			}
			l.B[it.ID] = d
		}
	}
	return l
}

// ---- comparing, shrinking, family ids ----

func c18Shape(a, b string) string {
	ka, kb := strings.SplitN(a, " ", 2)[0], strings.SplitN(b, " ", 2)[0]
	switch {
	case kb == "PANIC" || kb == "HANG":
		return strings.ToLower(kb)
	case ka == "PANIC" || ka == "HANG":
		return "canonical-" + strings.ToLower(ka)
	case ka == "OK" && kb == "OK":
		return "output-differs"
	case ka == "ERR" && kb == "ERR":
		return "error-differs"
	case ka == "OK":
		return "error-only-in-layout"
	}
	return "error-only-in-canonical"
}

func c18Delete(seq []*c18Stmt, id int) ([]*c18Stmt, bool) {
	for i, s := range seq {
		if s.ID == id {
			return append(append([]*c18Stmt{}, seq[:i]...), seq[i+1:]...), true
		}
		for j, e := range s.Elems {
			if e.IsBlk {
				if nb, ok := c18Delete(e.Block, id); ok {
					ns := *s
					ns.Elems = append([]c18Elem{}, s.Elems...)
					ns.Elems[j].Block = nb
					out := append([]*c18Stmt{}, seq...)
					out[i] = &ns
					return out, true
				}
			}
		}
	}
	return seq, false
}

func c18IDs(seq []*c18Stmt, out *[]int) {
	for _, s := range seq {
		*out = append(*out, s.ID)
		for _, e := range s.Elems {
			if e.IsBlk {
				c18IDs(e.Block, out)
			}
		}
	}
}

type c18Found struct {
	prog   []*c18Stmt
	layout *c18Layout
	shape  string
	ent    *c18Ent // the entry point the texts go through; nil = plush.Render (oracle_c18_entry.go)
}

func c18Differs(ent *c18Ent, prog []*c18Stmt, l *c18Layout, shape string) bool {
	var items []c18It
	c18Flatten(prog, &items)
	a := ent.obs(ent.text(items, c18NewLayout()))
	b := ent.obs(ent.text(items, l))
	return a != b && c18Shape(a, b) == shape
}

type c18Entry struct {
	m string
	k int
}

func (l *c18Layout) entries() []c18Entry {
	var es []c18Entry
	for k := range l.B {
		es = append(es, c18Entry{"B", k})
	}
	for k := range l.G {
		es = append(es, c18Entry{"G", k})
	}
	for k := range l.Open {
		es = append(es, c18Entry{"O", k})
	}
	for k := range l.Close {
		es = append(es, c18Entry{"C", k})
	}
	sort.Slice(es, func(i, j int) bool {
		if es[i].m != es[j].m {
			return es[i].m < es[j].m
		}
		return es[i].k < es[j].k
	})
	return es
}

func (l *c18Layout) without(es []c18Entry) *c18Layout {
	c := l.clone()
	for _, e := range es {
		switch e.m {
		case "B":
			delete(c.B, e.k)
		case "G":
			delete(c.G, e.k)
		case "O":
			delete(c.Open, e.k)
		case "C":
			delete(c.Close, e.k)
		}
	}
	return c
}

func c18Shrink(f c18Found) c18Found {
	budget := 1500
	try := func(p []*c18Stmt, l *c18Layout) bool {
		if budget <= 0 {
			return false
		}
		budget--
		return c18Differs(f.ent, p, l, f.shape)
	}
	for changed := true; changed && budget > 0; {
		changed = false
		// layout entries back to canonical: chunks of halving size (delta debugging)
		for n := len(f.layout.entries()); n >= 1; n /= 2 {
			es := f.layout.entries()
			for i := 0; i < len(es); i += n {
				j := i + n
				if j > len(es) {
					j = len(es)
				}
				if c := f.layout.without(es[i:j]); try(f.prog, c) {
					f.layout, changed = c, true
				}
			}
		}
		// simplify surviving boundary decisions
		bk := []int{}
		for k := range f.layout.B {
			bk = append(bk, k)
		}
		sort.Ints(bk)
		for _, k := range bk {
			d := f.layout.B[k]
			if len(d.Comments) > 0 && d.Merge {
				c := f.layout.clone()
				c.B[k] = c18Dec{Merge: true, Sep: d.Sep}
				if try(f.prog, c) {
					f.layout, changed, d = c, true, c.B[k]
				}
			}
			if len(d.Comments) > 1 {
				c := f.layout.clone()
				c.B[k] = c18Dec{Merge: d.Merge, Sep: d.Sep, Comments: d.Comments[:1]}
				if try(f.prog, c) {
					f.layout, changed, d = c, true, c.B[k]
				}
			}
			if d.Merge && d.Sep != "\n" && d.Sep != ";" && d.Sep != " " {
				for _, s := range []string{" ", "\n", ";"} {
					c := f.layout.clone()
					c.B[k] = c18Dec{Merge: true, Sep: s, Comments: d.Comments}
					if try(f.prog, c) {
						f.layout, changed = c, true
						break
					}
				}
			}
		}
		// drop statements
		var ids []int
		c18IDs(f.prog, &ids)
		for _, id := range ids {
			if p, ok := c18Delete(f.prog, id); ok && try(p, f.layout) {
				f.prog, changed = p, true
			}
		}
	}
	// forget entries that belong to deleted statements
	var items []c18It
	c18Flatten(f.prog, &items)
	live := map[int]bool{0: true} // 0: the edges of a script (oracle_c18_entry.go)
	for _, it := range items {
		live[it.ID] = true
	}
	var dead []c18Entry
	for _, e := range f.layout.entries() {
		if !live[e.k] {
			dead = append(dead, e)
		}
	}
	f.layout = f.layout.without(dead)
	return f
}

func c18SepClass(s string) string {
	switch {
	case strings.Contains(s, "#"):
		return "line-comment"
	case strings.Contains(s, ";"):
		return "semicolon"
	case s == "":
		return "nothing"
	case strings.Contains(s, "\r"):
		return "crlf"
	case strings.Contains(s, "\n"):
		return "newline"
	case strings.Contains(s, "\t"):
		return "tab"
	}
	return "space"
}

// the family id: which non-canonical layout entries are left after shrinking, in terms of token classes
func c18Family(f c18Found) string {
	var items []c18It
	c18Flatten(f.prog, &items)
	var parts []string
	lastTok := func(i int) string {
		for j := i - 1; j >= 0; j-- {
			switch items[j].K {
			case 't':
				return items[j].Cls
			case 'H':
				return "text"
			case 'e':
				return "out-tag"
			}
		}
		return "start"
	}
	nextTok := func(i int) string {
		for j := i + 1; j < len(items); j++ {
			switch items[j].K {
			case 't':
				return items[j].Cls
			case 'H':
				return "text"
			case 'E', 'P':
				return "out-tag"
			}
		}
		return "end"
	}
	for i, it := range items {
		switch it.K {
		case 'S', 'O', 'C':
			d, ok := f.layout.B[it.ID]
			if !ok {
				continue
			}
			what := ""
			if d.Merge && nextTok(i) != "text" && nextTok(i) != "out-tag" && nextTok(i) != "end" {
				sc := c18SepClass(d.Sep)
				if sc == "semicolon" && (it.K != 'S' || items[i+1].K != 't') {
					sc = "newline"
				}
				if sc == "newline" || sc == "crlf" || sc == "tab" || sc == "space" || sc == "nothing" {
					sc = "white-space"
				}
				what = "same-tag-" + sc
			}
			if len(d.Comments) > 0 {
				what += "+comment-tag"
			}
			if what == "" {
				continue
			}
			parts = append(parts, fmt.Sprintf("%s[after %s]", what, lastTok(i)))
		case 't':
			if s, ok := f.layout.G[it.ID]; ok && s != " " {
				parts = append(parts, fmt.Sprintf("gap-%s[%s|%s]", c18SepClass(s), lastTok(i), it.Cls))
			}
			if s, ok := f.layout.Open[it.ID]; ok && s != " " {
				parts = append(parts, fmt.Sprintf("after-opener-%s[%s]", c18SepClass(s), it.Cls))
			}
			if s, ok := f.layout.Close[it.ID]; ok && s != " " {
				parts = append(parts, fmt.Sprintf("before-closer-%s[%s]", c18SepClass(s), it.Cls))
			}
		}
	}
	sort.Strings(parts)
	uniq := parts[:0]
	for i, p := range parts {
		if i == 0 || p != parts[i-1] {
			uniq = append(uniq, p)
		}
	}
	parts = uniq
	if len(parts) > 2 {
		parts = append(parts[:2], "...")
	}
	if len(parts) == 0 {
		return f.shape + ":no-layout-entry-left"
	}
	return strings.Join(parts, ",")
}

func c18Case(site, a, b string) string {
	return "site=" + strconv.Quote(site) + " a=" + strconv.Quote(a) + " b=" + strconv.Quote(b)
}

var c18CaseRe = regexp.MustCompile(`^(?:site=("(?:[^"\\]|\\.)*") )?a=("(?:[^"\\]|\\.)*") b=("(?:[^"\\]|\\.)*")$`)

func c18Report(rep *Report, f c18Found, shrink bool) {
	if shrink {
		f = c18Shrink(f)
	}
	var items []c18It
	c18Flatten(f.prog, &items)
	a, b := c18Render(items, c18NewLayout()), c18Render(items, f.layout)
	oa, ob := c18Obs(a), c18Obs(b)
	kind := "wrong-output"
	site := c18Family(f)
	switch f.shape {
	case "panic":
		kind = "panic"
		site = strings.SplitN(ob, " ", 3)[1]
	case "hang":
		kind = "hang"
	case "error-only-in-layout", "error-differs":
		kind = "wrong-error"
	case "error-only-in-canonical":
		kind = "missing-error"
	}
	rep.Fail(Failure{Case: c18Case(site, a, b), Kind: kind, Site: site,
		What: fmt.Sprintf("two layouts of one token list must render identically; canonical (one statement per tag) gives %q, this layout gives %q", oa, ob)})
}

// all boundaries at which a cut/merge decision is possible (code on both sides)
func c18Decidable(items []c18It) []int {
	var out []int
	for i, it := range items {
		if it.K != 'S' && it.K != 'O' && it.K != 'C' {
			continue
		}
		if i == 0 || i+1 >= len(items) {
			continue
		}
		p, n := items[i-1].K, items[i+1].K
		if (p == 't' || p == 'O' || p == 'S' || p == 'C') && (n == 't' || n == 'C' || n == 'O' || n == 'S') {
			out = append(out, it.ID)
		}
	}
	return out
}

func init() {
	oracles["C18"] = func(cfg Config) []*Report {
		rep := NewReport("C18", "C18", cfg)
		rep.Rule = "programs as token trees (let, assignment, index assignment, calls, if/else-if/else, for with guarded break/continue, fn/func literals with return and calls, hash/array/string/back-quote literals, dashed and dotted identifiers, printing <%= if/for %> blocks with text and <%= e %> tags inside) over a fixed data context; per program: the canonical layout (one statement per tag, single spaces), every cut/merge pattern of the statement and block boundaries when there are <= 7 of them (merged with LF and with ';'), plus random layouts: separators from {nothing, space, tab, LF, CRLF, '# comment'+LF} in every token gap / after the opener / before the closer, boundaries cut or merged (white space, line comment, ';'), <%# %> comment tags at boundaries, plus systematic comment-tag layouts (one tag at every boundary; a single tag at each of up to 6 boundaries (2 in programs without block values), everything else canonical); 35% of the programs are block-value programs (oracle_c18_blockval.go): functions whose body holds text / output tags / printing blocks with an optional guarded return and an optional final return (a call may fall off the end), let u = if/else-if/else and let u = for expressions with 0-2 statement blocks, block helper calls wrap() { }, and these values used shape-sensitively (string concatenation, if condition, ! && || == !=, output tag); a separator is never removed where the neighbouring bytes would fuse (identifier/number bytes incl. '-' and '.', two-byte operators, tag delimiters), no statement begins with ( [ { - so that merging cannot turn two statements into one expression; non-trivial = layout text differs from the canonical text; distinct by (layout text); a mismatch is shrunk (layout entries back to canonical, statements deleted) and bucketed by the surviving layout entries in token-class terms"
		rep.Notes = append(rep.Notes,
			"'# comment' inside a statement (between two tokens that are not at a statement boundary) is generated in a third of the random layouts; the statement text names comments 'between statements' only, so such findings appear under gap-line-comment[...] family ids of their own",
			"errors are compared after deleting every 'line N: ' prefix",
			"a comment tag is never written between two adjacent pieces of literal text: they are one run of text, so the tag would sit inside a statement, not between two (plush then sees two text statements, which shows when the enclosing block's value is concatenated: '[0 0]' instead of '[00]'); the statement leaves that open",
			"the exhaustive cut/merge enumeration covers all boundaries of a program (nested ones included) when there are at most 7; with more, 3 fixed patterns (all cut, all merged with LF, all merged with ';') and random ones")
		if strings.HasPrefix(cfg.Arg, c18EntryPrefix) {
			return []*Report{c18EntryReplay(cfg)}
		}
		if cfg.Arg != "" {
			m := c18CaseRe.FindStringSubmatch(cfg.Arg)
			if m == nil {
				rep.Notes = append(rep.Notes, "cannot parse --arg (want [site=\"…\" ]a=\"…\" b=\"…\")")
				return []*Report{rep}
			}
			site := "replay"
			if m[1] != "" {
				site, _ = strconv.Unquote(m[1])
			}
			a, _ := strconv.Unquote(m[2])
			b, _ := strconv.Unquote(m[3])
			oa, ob := c18Obs(a), c18Obs(b)
			rep.Count(cfg.Arg, true)
			if oa != ob {
				shape := c18Shape(oa, ob)
				kind := "wrong-output"
				switch shape {
				case "panic":
					kind = "panic"
				case "hang":
					kind = "hang"
				case "error-only-in-layout", "error-differs":
					kind = "wrong-error"
				case "error-only-in-canonical":
					kind = "missing-error"
				}
				if shape == "panic" {
					site = strings.SplitN(ob, " ", 3)[1]
				}
				rep.Fail(Failure{Case: cfg.Arg, Kind: kind, Site: site,
					What: fmt.Sprintf("two layouts of one token list must render identically; a gives %q, b gives %q", oa, ob)})
			}
			return []*Report{rep}
		}
		r := NewRng(cfg.Seed).Fork(18)
		nprog := cfg.N(2500, 40000)
		for pi := 0; pi < nprog && !rep.Full(); pi++ {
			size := []int{1, 2, 2, 3, 3, 4, 5, 6, 8}[r.Intn(9)]
			prog := c18Gen(r, size)
			var items []c18It
			c18Flatten(prog, &items)
			canon := c18Render(items, c18NewLayout())
			want := c18Obs(canon)
			rep.Tag("canonical:" + strings.SplitN(want, " ", 2)[0])
			bvTags := c18BVTags(items)
			for _, t := range bvTags {
				rep.Tag(t)
			}
			var layouts []*c18Layout
			dec := c18Decidable(items)
			if len(dec) <= 7 {
				rep.Tag("exhaustive-cuts")
				for _, semi := range []bool{false, true} {
					for mask := 1; mask < 1<<len(dec); mask++ {
						l := c18NewLayout()
						for bi, id := range dec {
							if mask>>bi&1 == 1 {
								sep := "\n"
								if semi {
									sep = ";"
								}
								l.B[id] = c18Dec{Merge: true, Sep: sep}
							}
						}
						layouts = append(layouts, l)
					}
				}
			} else {
				for _, sep := range []string{"\n", ";", " "} {
					l := c18NewLayout()
					for _, id := range dec {
						l.B[id] = c18Dec{Merge: true, Sep: sep}
					}
					layouts = append(layouts, l)
				}
			}
			for k := 0; k < 12; k++ {
				layouts = append(layouts, c18RandLayout(r, items, k%3, k%3 == 0))
			}
			if len(bvTags) > 0 {
				layouts = append(layouts, c18CommentLayouts(r, items, 6)...)
			} else {
				layouts = append(layouts, c18CommentLayouts(r, items, 2)...)
			}
			reported := map[string]bool{}
			for _, l := range layouts {
				src := c18Render(items, l)
				got := c18Obs(src)
				rep.Count(src, src != canon)
				if got == want {
					continue
				}
				shape := c18Shape(want, got)
				f := c18Shrink(c18Found{prog: prog, layout: l, shape: shape})
				fam := c18Family(f)
				if reported[fam] {
					continue
				}
				reported[fam] = true
				c18Report(rep, f, false)
			}
		}
		return []*Report{rep, c18EntryStream(cfg)}
	}
}
