package main

import (
	"fmt"
	"math"
	"reflect"
	"sort"
	"strconv"
	"strings"
	"sync"
	"unicode/utf8"

	plush "github.com/gobuffalo/plush/v5"
)

// ---------------------------------------------------------------------------------------------
// C04 value SHAPES. The kind matrices of oracle_c04.go cross every value KIND, but with one small
// value per kind (strings are "abc", "", "a("; ints are -1..7). The property quantifies over
// "index or key values" and "argument types" of ordinary Go data, so this stream crosses, within a
// kind, the values on which reflection / slicing / arithmetic preconditions depend:
//
//   strings  rune length != byte length (2-, 3-, 4-byte runes, combining marks), invalid UTF-8,
//            lengths around the defaults helpers use, very long, control bytes, URL / regex / word shapes
//   ints     0, +-1, around container lengths, around string rune- and byte-lengths, Min/Max of the widths
//   floats   NaN, +-Inf, -0, Max, denormal
//   slices   every length 0..7, arrays (incl. [0]T), pointers, long, nil elements, multi-byte elements
//   maps     empty, NaN key, multi-byte keys, nil values
//   structs  what pathFor takes apart (Slug / ID of pointer, interface, slice, func, map kinds)
//
// All shape variables are named sh<Upper>...; they are added to the environment of a case iff the template
// text contains "sh" followed by an upper-case letter (so the cases of the other streams see exactly the environment they always saw,
// and a case is still fully described by its template text).
// ---------------------------------------------------------------------------------------------

type c04ShUnit struct {
	Tag string // name fragment
	S   string // one unit
}

// one unit = one "character" as a user counts it; bytes per unit 1,2,3,4, 1 (invalid), 3 (2 runes)
var c04ShUnits = []c04ShUnit{{"A", "a"}, {"E", "\u00e9"}, {"C", "\u4e16"}, {"M", "\U0001F600"}, {"X", "\xff"}, {"K", "e\u0301"}}
var c04ShCounts = []int{1, 3, 4, 10, 20, 30, 49, 50, 51, 100}

type c04ShStr struct {
	Name string
	Val  string
	Rep  bool // representative subset (used by the quadratic matrices)
}

var (
	c04ShOnce    sync.Once
	c04ShStrings []c04ShStr
)

func c04ShStrs() []c04ShStr {
	c04ShOnce.Do(func() {
		for _, u := range c04ShUnits {
			for _, n := range c04ShCounts {
				rep := (n == 20 && (u.Tag == "C" || u.Tag == "X")) || (n == 30 && u.Tag == "E") || (n == 51 && u.Tag == "M") || (n == 3 && u.Tag == "K")
				c04ShStrings = append(c04ShStrings, c04ShStr{"shS" + u.Tag + strconv.Itoa(n), strings.Repeat(u.S, n), rep})
			}
		}
		sp := []c04ShStr{
			{"shSSpace", "   ", false}, {"shSNul", "a\x00b", false}, {"shSBadMid", "ab\xffcd\xc3", true}, {"shSSurr", "\xed\xa0\x80x", false},
			{"shSBom", "\ufeffabc", false}, {"shSRtl", "שלום עולם", false}, {"shSLong", strings.Repeat("ab ", 500), true},
			{"shSLongMB", strings.Repeat("界é", 400), false},
			{"shSUrl", "http://example.com/a?b=c#d", true}, {"shSBadUrl", "http://[::1", false}, {"shSPct", "%zz", false}, {"shSDots", "../../..", false},
			{"shSSlash", "/", false}, {"shSPunct", "!?.,;-_", false}, {"shSDigits", "12345", false}, {"shSOrd", "1st", false}, {"shSNeg", "-11", false},
			{"shSUpper", "ABC", false}, {"shSCamel", "HelloWorldID", true}, {"shSSnake", "_a__b_", false}, {"shSDash", "-", false},
			{"shSNL", "a\nb\r\n\tc", false}, {"shSTag", "<%= 1 %>", false}, {"shSQuote", "\"'\\`", false}, {"shSRe", ".*(?P<n>a)+", true},
			{"shSReBad", "[a-", false}, {"shSReBig", "(a{1000}){1000}", false}, {"shSWords", "the quick  brown_fox-jumps Über", false},
			{"shSDotted", "a.b.c", false}, {"shSCF", "contentFor:x", false}, {"shSSharp", "ẞßſ", false}, {"shSZW", "a\u200db\u00ad", false},
		}
		c04ShStrings = append(c04ShStrings, sp...)
	})
	return c04ShStrings
}

type c04ShPath1 struct{ Slug *string }
type c04ShPath2 struct{ ID interface{} }
type c04ShPath3 struct{ ID []int }
type c04ShPath4 struct{ ID func() }
type c04ShPath5 struct {
	Slug map[string]int
	ID   int
}
type c04ShPath6 struct{ slug, id int }
type c04ShKeyS string
type c04ShKeyI int

// c04ShScalars: immutable non-string shapes (shared between renders).
var c04ShScalars = map[string]interface{}{
	"shIMax": math.MaxInt, "shIMin": math.MinInt, "shIMaxM1": math.MaxInt - 1, "shIMaxM2": math.MaxInt - 2,
	"shIMinP1": math.MinInt + 1, "shIMinP2": math.MinInt + 2,
	"shI32Max": int(math.MaxInt32), "shI32Over": int(math.MaxInt32) + 1, "shI32Min": int(math.MinInt32),
	"shI64Max": int64(math.MaxInt64), "shI64Min": int64(math.MinInt64), "shU64Max": uint64(math.MaxUint64),
	"shI8Min": int8(math.MinInt8), "shI8Max": int8(math.MaxInt8), "shU8Max": uint8(math.MaxUint8), "shUMax": uint(math.MaxUint),
	"shFNaN": math.NaN(), "shFInf": math.Inf(1), "shFNegInf": math.Inf(-1), "shFNegZero": math.Copysign(0, -1),
	"shFMax": math.MaxFloat64, "shFTiny": math.SmallestNonzeroFloat64, "shF32NaN": float32(math.NaN()), "shFBig": 1e19, "shFNegBig": -1e19,
}

var c04ShIntNames = []string{"shIMax", "shIMin", "shIMaxM1", "shIMaxM2", "shIMinP1", "shIMinP2", "shI32Max", "shI32Over", "shI32Min",
	"shI64Max", "shI64Min", "shU64Max", "shI8Min", "shI8Max", "shU8Max", "shUMax"}
var c04ShFloatNames = []string{"shFNaN", "shFInf", "shFNegInf", "shFNegZero", "shFMax", "shFTiny", "shF32NaN", "shFBig", "shFNegBig"}

// small ints written as literals (a negative literal is spelled 0 - n)
var c04ShIntLits = []string{"(0 - 2)", "(0 - 1)", "0", "1", "2", "3", "4", "5", "6", "7", "8", "50", "1000"}

// c04ShContNames: the mutable container / struct shapes (rebuilt for every render).
var c04ShContNames = []string{"shL0", "shL1", "shL2", "shL3", "shL4", "shL5", "shL6", "shL7", "shLA0", "shLA3", "shLP", "shLPA", "shLAny", "shLS5", "shLNest",
	"shLBig", "shLF", "shMEmpty", "shMNaN", "shMAnyNaN", "shMAnyNil", "shMMB", "shMNilVal", "shMInt64", "shMBool", "shMNamedStr", "shMNamedInt", "shMStringer", "shMArrKey"}
var c04ShStructNames = []string{"shP1", "shP1b", "shP2", "shP2b", "shP3", "shP4", "shP5", "shP6", "shPAnon", "shPSl"}

func c04ShEnv(m map[string]interface{}) {
	for _, s := range c04ShStrs() {
		m[s.Name] = s.Val
	}
	for k, v := range c04ShScalars {
		m[k] = v
	}
	for n := 0; n <= 7; n++ {
		l := make([]int, n)
		for i := range l {
			l[i] = i + 1
		}
		m["shL"+strconv.Itoa(n)] = l
	}
	big := make([]int, 200)
	p := []int{1, 2, 3, 4, 5}
	pa := [4]string{"a", "世", "", "é"}
	slug := "世 界/é"
	m["shLA0"] = [0]int{}
	m["shLA3"] = [3]int{7, 8, 9}
	m["shLP"] = &p
	m["shLPA"] = &pa
	m["shLAny"] = []interface{}{nil, 1, "世", nil, (*c04S)(nil), []int(nil)}
	m["shLS5"] = []string{"世界", "", "é", "\xff", "😀😀"}
	m["shLNest"] = [][]string{{}, nil, {"a", "世"}}
	m["shLBig"] = big
	m["shLF"] = []float64{math.NaN(), math.Inf(1), 0}
	m["shMEmpty"] = map[string]interface{}{}
	// maps whose entries behave differently hold ONE entry: plush visits map keys in random order
	m["shMNaN"] = map[float64]string{math.NaN(): "nan"}
	m["shMAnyNaN"] = map[interface{}]interface{}{math.NaN(): 1}
	m["shMAnyNil"] = map[interface{}]interface{}{"世": nil}
	m["shMMB"] = map[string]string{"世界": "é", "": "empty", "\xff": "bad"}
	m["shMNilVal"] = map[string]*c04S{"a": nil}
	m["shMInt64"] = map[int64]int{math.MaxInt64: 1, math.MinInt64: 2}
	m["shMBool"] = map[bool][]int{true: nil, false: {1}}
	m["shMNamedStr"] = map[c04ShKeyS]int{"shSA1": 1, "a": 2, "": 3}
	m["shMNamedInt"] = map[c04ShKeyI]string{0: "zero", -1: "neg", math.MaxInt: "max"}
	m["shMStringer"] = map[fmt.Stringer]int{c04Str{"a"}: 1}
	m["shMArrKey"] = map[[2]int]string{{1, 2}: "x"}
	m["shP1"] = c04ShPath1{}
	m["shP1b"] = &c04ShPath1{Slug: &slug}
	m["shP2"] = c04ShPath2{}
	m["shP2b"] = c04ShPath2{ID: []int{1}}
	m["shP3"] = c04ShPath3{ID: []int{}}
	m["shP4"] = c04ShPath4{ID: func() {}}
	m["shP5"] = c04ShPath5{Slug: map[string]int{"a": 1}}
	m["shP6"] = c04ShPath6{1, 2}
	m["shPAnon"] = struct{ ID string }{"世/../x"}
	m["shPSl"] = []interface{}{"a", c04ShPath2{}, 3, nil}
}

// c04EnvFor: the environment of a case, determined by the template text alone.
func c04EnvFor(tmpl string) map[string]interface{} {
	m := c04Env()
	for i := 0; i+2 < len(tmpl); i++ {
		if tmpl[i] == 's' && tmpl[i+1] == 'h' && tmpl[i+2] >= 'A' && tmpl[i+2] <= 'Z' {
			c04ShEnv(m)
			break
		}
	}
	if c04ImMentions(tmpl) {
		c04ImEnv(m)
	}
	if c04MuMentions(tmpl) {
		c04MuEnv(m)
	}
	if c04SgMentions(tmpl) {
		c04SgEnv(m, tmpl)
	}
	return m
}

// c04ShMapHelpers: names of the registered helpers whose Go signature has a map parameter (an options hash).
func c04ShMapHelpers() []string {
	var out []string
	for k, f := range plush.Helpers.All() {
		t := reflect.TypeOf(f)
		if t == nil || t.Kind() != reflect.Func {
			continue
		}
		for i := 0; i < t.NumIn(); i++ {
			if t.In(i).Kind() == reflect.Map {
				out = append(out, k)
				break
			}
		}
	}
	sort.Strings(out)
	return out
}

func c04ShIntLit(n int) string {
	switch {
	case n == math.MaxInt:
		return "shIMax"
	case n == math.MinInt:
		return "shIMin"
	case n < 0:
		return "0 - " + strconv.Itoa(-n)
	}
	return strconv.Itoa(n)
}

type c04ShCase struct{ tmpl, tag string }

func c04Shapes(cfg Config) *Report {
	r := c04NewRunner("C04-shapes", cfg)
	r.rep.Exhaustive = true
	var cases []c04ShCase
	add := func(tmpl, tag string) { cases = append(cases, c04ShCase{tmpl, tag}) }

	names := []string{}
	for k := range plush.Helpers.All() {
		names = append(names, k)
	}
	sort.Strings(names)

	strs := c04ShStrs()
	all := []string{}    // every shape expression
	rep := []string{}    // representative shapes (quadratic matrices)
	strRep := []string{} // representative strings
	for _, s := range strs {
		all = append(all, s.Name)
		if s.Rep {
			rep = append(rep, s.Name)
			strRep = append(strRep, s.Name)
		}
	}
	all = append(all, c04ShIntNames...)
	all = append(all, c04ShFloatNames...)
	all = append(all, c04ShIntLits...)
	all = append(all, c04ShContNames...)
	all = append(all, c04ShStructNames...)
	intRep := []string{"shIMax", "shIMin", "shI64Max", "shU64Max", "(0 - 1)", "0", "2", "50"}
	rep = append(rep, intRep...)
	rep = append(rep, "shFNaN", "shFBig", "shL0", "shL5", "shLA0", "shLP", "shLAny", "shMNaN", "shMMB")

	// A. every helper x one argument over every shape (plain and with a block)
	for _, h := range names {
		for _, a := range all {
			add("<%= "+h+"("+a+") %>", "A helper1 "+h)
			add("<%= "+h+"("+a+") { %>b<%= shSC3 %><% } %>", "A helper1 "+h)
		}
	}
	// B. every helper x two arguments over the representative shapes
	repB := []string{"shSC20", "shSE30", "shSX20", "shSM51", "shSLong", "shSRe", "shIMax", "shIMin", "shU64Max", "(0 - 1)", "0", "2", "shFNaN", "shL0", "shL5", "shLAny", "shMMB"}
	for _, h := range names {
		for _, a := range repB {
			for _, b := range repB {
				add("<%= "+h+"("+a+", "+b+") %>", "B helper2 "+h)
			}
		}
	}
	// C. helpers that take an options hash: string shape x {size, trail} with sizes on the boundaries that the
	// string's rune length, its byte length and the trail's lengths define
	mapHelpers := c04ShMapHelpers()
	type trail struct {
		expr   string // "" = absent
		tr, tb int
	}
	trails := []trail{{"", 3, 3}, {`""`, 0, 0}, {`"…"`, 1, 3}, {"shSM4", 4, 16}, {"shSC20", 20, 60}, {"shSA50", 50, 50}, {"shSX3", 3, 3}, {"nil", 3, 3}, {"5", 3, 3}}
	var cstr []c04ShStr
	for _, s := range strs {
		if s.Rep || strings.HasSuffix(s.Name, "20") || strings.HasSuffix(s.Name, "30") || strings.HasSuffix(s.Name, "50") || strings.HasSuffix(s.Name, "51") || strings.HasSuffix(s.Name, "3") {
			cstr = append(cstr, s)
		}
	}
	for _, h := range mapHelpers {
		for _, s := range cstr {
			rn, bn := utf8.RuneCountInString(s.Val), len(s.Val)
			for _, t := range trails {
				cand := []int{-1, 0, 1, t.tr, t.tr + 1, rn - 1, rn, rn + 1, rn + t.tr, rn + t.tr + 1, bn - 1, bn, bn + 1, (rn + bn) / 2,
					bn - t.tb, bn + t.tb, 2*bn + 1, 50, math.MaxInt, math.MinInt}
				seen := map[int]bool{}
				opts := []string{}
				if t.expr == "" {
					opts = append(opts, "{}")
				} else {
					opts = append(opts, `{"trail": `+t.expr+`}`)
				}
				for _, n := range cand {
					if seen[n] {
						continue
					}
					seen[n] = true
					o := `{"size": ` + c04ShIntLit(n)
					if t.expr != "" {
						o += `, "trail": ` + t.expr
					}
					opts = append(opts, o+"}")
				}
				for _, o := range opts {
					add("<%= "+h+"("+s.Name+", "+o+") %>", "C opts "+h)
				}
			}
			for _, v := range []string{"shFNaN", "shI64Max", "shU8Max", "shL3", "shSC20", "shFBig"} {
				add("<%= "+h+"("+s.Name+`, {"size": `+v+`, "trail": `+v+`, "layout": `+v+`}) %>`, "C opts "+h)
			}
		}
	}
	// D. iterator helpers with boundary ints, iterated (only argument pairs that describe a short sequence)
	near := [][2]string{{"shIMaxM2", "shIMax"}, {"shIMaxM1", "shIMax"}, {"shIMax", "shIMax"}, {"shIMax", "shIMaxM1"}, {"shIMax", "shIMin"},
		{"shIMin", "shIMinP2"}, {"shIMin", "shIMinP1"}, {"shIMin", "shIMin"}, {"shIMinP1", "shIMin"}, {"0", "shIMin"}, {"shIMax", "0"},
		{"(0 - 2)", "1"}, {"0", "0"}, {"3", "1"}, {"shI32Max", "shI32Over"}}
	for _, p := range near {
		for _, h := range []string{"range", "between"} {
			add("<%= for (v) in "+h+"("+p[0]+", "+p[1]+") { %><%= v %>,<% } %>", "D iter-bounds "+h)
		}
	}
	for _, a := range []string{"shIMin", "shIMinP1", "shIMinP2", "(0 - 1)", "0", "1", "3", "shI32Min"} {
		add("<%= for (v) in until("+a+") { %><%= v %>,<% } %>", "D iter-bounds until")
	}
	// E. groupBy: every size x every sequence length
	gsz := []string{"(0 - 1)", "0", "1", "2", "3", "4", "5", "6", "7", "8", "1000", "shIMax", "shIMin", "shI32Over"}
	gls := []string{"shL0", "shL1", "shL2", "shL3", "shL4", "shL5", "shL6", "shL7", "shLA0", "shLA3", "shLP", "shLPA", "shLAny", "shLS5", "shLNest", "shLBig", "shSC20", "shMMB"}
	for _, n := range gsz {
		for _, l := range gls {
			add("<%= for (g) in groupBy("+n+", "+l+") { %>[<%= for (x) in g { %><%= x %>,<% } %>]<% } %>", "E groupBy")
			add("<%= len(groupBy("+n+", "+l+")) %><%= groupBy("+n+", "+l+") %>", "E groupBy")
		}
	}
	// F. index reads / writes: container shapes and pool containers x index / key shapes
	conts := append([]string{}, c04ShContNames...)
	for _, e := range c04Sel(func(e c04Ent) bool { return e.Cont }) {
		conts = append(conts, e.Expr)
	}
	conts = append(conts, "shSC20", "shSX3", "shP2b")
	idx := append(append(append([]string{}, c04ShIntNames...), c04ShFloatNames...), c04ShIntLits...)
	idx = append(idx, "shSC1", "shSX1", "shSA1", "shSNul", "shSLong", `""`, `"世界"`, "shL0", "shMNaN", "shP4")
	for _, c := range conts {
		for _, i := range idx {
			add("<%= "+c+"["+i+"] %>", "F index-read")
			add("<% "+c+"["+i+"] = 1 %><%= "+c+"["+i+"] %>", "F index-write")
			add("<% "+c+"["+i+"] = shSC3 %><%= "+c+" %>", "F index-write")
			add("<% "+c+"["+i+"] = nil %><%= len("+c+") %>", "F index-write")
		}
	}
	// G. operators over the representative shapes
	for _, op := range c04BinOps {
		for _, a := range rep {
			for _, b := range rep {
				add("<%= "+a+" "+op+" "+b+" %>", "G op "+op)
			}
		}
	}
	for _, a := range all {
		add("<%= "+a+" %>|<%= -"+a+" %>|<%= !"+a+" %>", "G output")
		add("<% if ("+a+") { %>t<% } %><%= ["+a+"] %><% return "+a+" %>", "G output")
		add("<%= "+a+" ~= "+a+" %>|<%= "+a+" + "+a+" %>|<%= "+a+" * "+a+" %>|<%= "+a+" / (0 - 1) %>", "G self")
	}
	// H. iteration over every shape
	iforms := []string{
		"<%= for (k, v) in X { %><%= k %>=<%= v %>;<% } %>",
		"<%= for (v) in X { %><%= for (a, b) in v { %><%= b %><% } %><% } %>",
		"<% for (k, v) in X { %><% X[k] = v %><% } %><%= X %>",
		"<%= for (k, v) in X { %><%= X[k] %><% if (k == 2) { break } %><% } %>",
	}
	for _, a := range all {
		if a == "shLBig" || a == "shSLong" || a == "shSLongMB" {
			continue
		}
		for _, f := range iforms {
			add(strings.Replace(f, "X", a, -1), "H iter")
		}
	}
	// I. Go callees, methods and user functions with shaped arguments
	for _, c := range c04Callees {
		for _, a := range all {
			add("<%= "+c.Name+"("+a+") %>", "I go1 "+c.Name)
		}
	}
	small := append(append([]string{}, intRep...), "shFNaN", "shFBig", "shSC20", "shSX20", "shL0", "shLAny")
	for _, c := range []string{"gfSI", "gfIII", "gfV", "gfVA", "gfSV", "gfSM", "vStruct.Add", "vStructPtr.Many", "vStruct.Fn", "vFn1", "vFnVar"} {
		for _, a := range small {
			for _, b := range small {
				add("<%= "+c+"("+a+", "+b+") %>", "I go2")
			}
		}
	}
	for _, a := range all {
		add("<% let f = fn(x) { return x + x } %><%= f("+a+") %>", "I userfn")
		add("<%= {\"k\": "+a+"} %><%= toJSON({\"k\": ["+a+"]}) %><%= len(["+a+", "+a+"]) %>", "I literal")
		add("<%= "+a+".Name %><%= "+a+".Hello() %>", "I member")
	}

	r.rep.Rule = fmt.Sprintf("value SHAPES inside a kind (%d strings: (1/2/3/4-byte, invalid, combining) x %d lengths, long, control, URL/regex/word shapes; %d boundary ints of all widths; %d floats NaN/Inf/-0/huge; %d containers: every length 0..7, [0]T, pointers, NaN-keyed maps; %d structs) crossed with: A every registered helper x 1 arg (+block); B every helper x %d^2 representative shapes; G operators over %d^2; C the %d helpers whose signature has a map parameter x %d strings x {size, trail} hashes with sizes on the boundaries given by the string's rune length, byte length and the trail's lengths; D range/between/until at the int bounds, iterated; E groupBy size x sequence length; F index read/write with boundary keys; H iteration; I Go callee / method / user fn arguments; %d cases, all enumerated; distinct by template text",
		len(strs), len(c04ShCounts), len(c04ShIntNames)+len(c04ShIntLits), len(c04ShFloatNames), len(c04ShContNames), len(c04ShStructNames), len(repB), len(rep), len(mapHelpers), len(cstr), len(cases))

	var mu sync.Mutex
	c04Chunked(r.rep, cfg, 6, len(cases), func(lo, hi int, rep *Report) {
		w := &c04Runner{rep: rep, noted: map[string]bool{}, panicFam: map[string]int{}}
		for i := lo; i < hi && !rep.Full(); i++ {
			w.check(cases[i].tmpl, cases[i].tag)
		}
		mu.Lock()
		for k, v := range w.panicFam {
			r.panicFam[k] += v
		}
		mu.Unlock()
	})
	return r.finish()
}
