package main

import (
	"errors"
	"fmt"
	"html/template"
	"regexp"
	"strconv"
	"strings"
	"time"

	plush "github.com/gobuffalo/plush/v5"
)

// C15 oracle (model-free): every error of a faulty template starts with "line N:", N is the line on
// which the tag holding the failing statement begins, and k extra leading newlines add exactly k to N
// and change nothing else.
//
// A case is a generated multi-line template with exactly one failing tag (kept on ONE line, except in
// the separately bucketed multi-line sub-stream) at a line the generator knows, at top level or inside
// if / else / for / fn / block-helper bodies (nested to depth 3), preceded by a mix of text, valid tags,
// multi-line strings, # comments, <%# %> tags and complete earlier blocks. The earlier material includes
// multi-step histories: tags that render fine although a statement nested in them failed (an unknown
// identifier inside a user function body, swallowed by ||, &&, ==, !=, ! or an if / else-if condition),
// and blocks that a nested statement leaves early (break / continue / return).

// ---- the data the templates run against (rebuilt for every render) ----

func c15Ctx() *plush.Context {
	return plush.NewContextWith(map[string]interface{}{
		"xs":   []interface{}{1, 2, 3},
		"n":    5,
		"s":    "str",
		"t":    true,
		"m":    map[string]interface{}{"a": 1},
		"fail": func() (string, error) { return "", errors.New("boom") },
		"failArg": func(i int) (string, error) {
			return "", fmt.Errorf("boom %d", i)
		},
		"wrap": func(h plush.HelperContext) (template.HTML, error) {
			s, err := h.Block()
			return template.HTML("[" + s + "]"), err
		},
	})
}

// ---- failing tags ----

type c15Fail struct {
	kind     string // family of the fault
	tag      string // the failing tag, on one line
	runtime  bool   // true: the error is raised while rendering; false: while parsing
	noLoop   bool   // only an error outside a loop (break / continue)
	unterm   bool   // input ends inside an unterminated string: any line from the tag to the end is accepted
	needsFn  bool   // the template starts with c15Prelude
	needsBad bool   // the template starts with c15BadPrelude
}

const c15Prelude = "<% let okf = fn(a) { %>\n<%= a %>\n<% } %>\n"

// a user function whose body fails with an unknown identifier (lines 1-3); callers swallow that error
const c15BadPrelude = "<% let badf = fn() {\n return zzq\n} %>\n"

func (f c15Fail) prelude() string {
	switch {
	case f.needsFn:
		return c15Prelude
	case f.needsBad:
		return c15BadPrelude
	}
	return ""
}

var c15Big = strings.Repeat("9", 330)

var c15Fails = []c15Fail{
	// run-time faults
	{kind: "unknown-identifier", tag: `<%= zzz %>`, runtime: true},
	{kind: "unknown-identifier", tag: `<% zzz() %>`, runtime: true},
	{kind: "unknown-identifier", tag: `<% let q = zzz %>`, runtime: true},
	{kind: "unknown-identifier", tag: `<%= zzz + 1 %>`, runtime: true},
	{kind: "unknown-identifier", tag: `<% n = zzz %>`, runtime: true},
	{kind: "unknown-identifier", tag: `<% zzz = 1 %>`, runtime: true},
	{kind: "failing-helper", tag: `<%= fail() %>`, runtime: true},
	{kind: "failing-helper", tag: `<% fail() %>`, runtime: true},
	{kind: "failing-helper", tag: `<% let q = fail() %>`, runtime: true},
	{kind: "failing-helper", tag: `<%= failArg(n) %>`, runtime: true},
	{kind: "failing-helper", tag: `<%= "a" + fail() %>`, runtime: true},
	{kind: "type-error", tag: `<%= 1 + "a" %>`, runtime: true},
	{kind: "type-error", tag: `<%= s - 1 %>`, runtime: true},
	{kind: "type-error", tag: `<%= n.Foo %>`, runtime: true},
	{kind: "type-error", tag: `<%= n(1) %>`, runtime: true},
	{kind: "type-error", tag: `<%= xs["a"] %>`, runtime: true},
	{kind: "type-error", tag: `<%= len(1, 2, 3) %>`, runtime: true},
	{kind: "type-error", tag: `<%= truncate(n) %>`, runtime: true},
	{kind: "type-error", tag: `<%= for (x) in n { %>y<% } %>`, runtime: true},
	{kind: "type-error", tag: `<% let q = n / 0 %>`, runtime: true},
	{kind: "index-out-of-range", tag: `<%= xs[5] %>`, runtime: true},
	{kind: "index-out-of-range", tag: `<% xs[9] = 1 %>`, runtime: true},
	{kind: "index-out-of-range", tag: `<%= [1, 2][3] %>`, runtime: true},
	{kind: "index-out-of-range", tag: `<% let q = xs[n] %>`, runtime: true},
	// the fault follows a successful call of a user function defined in lines 1-3 (c15Prelude)
	{kind: "fail-after-user-fn-call", tag: `<%= okf(1) + zzz %>`, runtime: true, needsFn: true},
	{kind: "fail-after-user-fn-call", tag: `<% let q = okf(2) + fail() %>`, runtime: true, needsFn: true},
	{kind: "fail-after-user-fn-call", tag: `<%= xs[okf(7)] %>`, runtime: true, needsFn: true},
	// the fault follows, in the same tag, a call of a user function (lines 1-3, c15BadPrelude) whose body hit an
	// unknown identifier; the language swallows that error (== nil, ||, !) and the tag fails for another reason
	{kind: "fail-after-swallowed-fn-error", tag: `<%= xs[badf() == nil] %>`, runtime: true, needsBad: true},
	{kind: "fail-after-swallowed-fn-error", tag: `<% let q = (badf() || 1) + zzz %>`, runtime: true, needsBad: true},
	{kind: "fail-after-swallowed-fn-error", tag: `<%= (badf() == nil) + fail() %>`, runtime: true, needsBad: true},
	{kind: "fail-after-swallowed-fn-error", tag: `<%= failArg(!badf()) %>`, runtime: true, needsBad: true},
	{kind: "fail-after-swallowed-fn-error", tag: `<%= [badf() != nil, 2][3] %>`, runtime: true, needsBad: true},
	// syntax faults
	{kind: "missing-paren", tag: `<%= (1 + 2 %>`},
	{kind: "missing-paren", tag: `<%= failArg(1 %>`},
	{kind: "missing-paren", tag: `<%= if (true { %>x<% } %>`},
	{kind: "missing-paren", tag: `<%= for (x in xs { %>y<% } %>`},
	{kind: "missing-paren", tag: `<% let g = fn(a { } %>`},
	{kind: "missing-paren", tag: `<%= if true { %>y<% } %>`},
	{kind: "missing-brace", tag: `<%= if (true) %>x<% } %>`},
	{kind: "missing-brace", tag: `<%= for (x) in xs %>x<% } %>`},
	{kind: "missing-brace", tag: `<% let g = fn() %>x<% } %>`},
	{kind: "missing-brace", tag: `<%= if (true) { %>a<% } else %>b<% } %>`},
	{kind: "missing-brace", tag: `<%= {a: 1 %>`},
	{kind: "missing-bracket", tag: `<%= [1, 2 %>`},
	{kind: "missing-bracket", tag: `<%= xs[1 %>`},
	{kind: "unexpected-token", tag: `<%= ) %>`},
	{kind: "unexpected-token", tag: `<%= * 3 %>`},
	{kind: "unexpected-token", tag: `<% else %>`},
	{kind: "unexpected-token", tag: `<% let = 3 %>`},
	{kind: "unexpected-token", tag: `<% let a 3 %>`},
	{kind: "unexpected-token", tag: `<%= & %>`},
	{kind: "unexpected-token", tag: `<%= 1 & 2 %>`},
	{kind: "unexpected-token", tag: `<%= in %>`},
	{kind: "unexpected-token", tag: `<%= ] %>`},
	{kind: "unexpected-token", tag: `<%= , %>`},
	{kind: "unexpected-token", tag: `<% if %>`},
	{kind: "unexpected-token", tag: `<% fn %>`},
	{kind: "invalid-if-condition", tag: `<%= if ([1]) { %>x<% } %>`},
	{kind: "invalid-if-condition", tag: `<%= if () { %>x<% } %>`},
	{kind: "invalid-nested-index", tag: `<%= xs[0].[1] %>`},
	{kind: "invalid-nested-index", tag: `<%= m["a"].(1) %>`},
	{kind: "unexpected-tag-end", tag: `<%= failArg(1, %>`},
	{kind: "unexpected-tag-end", tag: `<%= ( %>`},
	{kind: "unexpected-tag-end", tag: `<%= [1, %>`},
	{kind: "unexpected-tag-end", tag: `<%= {a: %>`},
	{kind: "bad-literal", tag: `<% 99999999999999999999 %>`},
	{kind: "bad-literal", tag: `<% let a = 99999999999999999999 %>`},
	{kind: "bad-literal", tag: `<%= 1.2.3 %>`},
	{kind: "bad-literal", tag: `<%= ` + c15Big + `.5 %>`},
	{kind: "bad-literal", tag: `<%= n + 99999999999999999999 %>`},
	{kind: "break-outside-loop", tag: `<% break %>`, noLoop: true},
	{kind: "break-outside-loop", tag: `<% continue %>`, noLoop: true},
	{kind: "unterminated-string", tag: `<%= failArg("abc %>`, unterm: true},
	{kind: "unterminated-string", tag: "<%= failArg(`abc %>", unterm: true},
	{kind: "unterminated-string", tag: `<%= [1, "abc %>`, unterm: true},
	{kind: "unterminated-string", tag: `<% let a = ("x %>`, unterm: true},
}

// failing tags that span lines: the property's "line on which the tag begins" is checked in families of
// their own (wrong-line-multiline-tag:<variant>). Tags of SEVERAL statements with the failing one anywhere among them
// are generated in oracle_c15_script.go.
type c15Multi struct {
	variant string
	tag     string
	runtime bool
}

var c15Multis = []c15Multi{
	{"newline-after-opener", "<%=\nzzz %>", true},
	{"newline-after-opener", "<%\nzzz() %>", true},
	{"newline-after-opener", "<%=\n) %>", false},
	{"newline-before-close", "<%= zzz\n%>", true},
	{"newline-before-close", "<% fail()\n%>", true},
	{"newline-before-close", "<%= (1 + 2\n%>", false},
	{"newline-after-first-token", "<% zzz\n() %>", true},
	{"newline-after-first-token", "<% let\nq = zzz %>", true},
	{"newline-mid-statement", "<% let q =\nzzz %>", true},
	{"newline-mid-statement", "<%= 1 +\n\"a\" %>", true},
	{"newline-mid-statement", "<%= (1 +\n2 %>", false},
	{"newline-mid-statement", "<%= failArg(1,\n2 %>", false},
	{"line-comment-in-tag", "<% # note\nzzz() %>", true},
	{"line-comment-in-tag", "<%= zzz # note\n%>", true},
}

// ---- template builder ----

const c15Mark = "\x00F\x00"

type c15B struct {
	r      *Rng
	sb     strings.Builder
	nvar   int
	simple bool  // after the failing tag: only quote-free single-purpose items
	blocks []int // pairs (first line, last line) of complete blocks that end before the failing tag
	swal   []int // pairs (first line, last line) of earlier user functions whose body fails; every caller swallows the error
	fail   string
	inLoop bool
	desc   []string // containers around the failing tag, outermost first
}

func (b *c15B) line() int  { return 1 + strings.Count(b.sb.String(), "\n") }
func (b *c15B) w(s string) { b.sb.WriteString(s) }
func (b *c15B) v() string  { b.nvar++; return "v" + strconv.Itoa(b.nvar) }

var c15Words = []string{"alpha", "beta", "<p>", "</p>", "x y", "100%", "a < b", "<b>bold</b>", "&amp;", "-", "it is", "{ }", "( )", "= =", "%", ">"}

func (b *c15B) sep() {
	b.w(Pick(b.r, []string{"\n", "\n", "\n", "", " ", "\n\n", "\r\n", "\t\n"}))
}

func (b *c15B) text() {
	for n := b.r.Range(1, 3); n > 0; n-- {
		b.w(Pick(b.r, c15Words))
		if b.r.Chance(70) {
			b.w("\n")
		} else {
			b.w(" ")
		}
	}
	if !b.simple && b.r.Chance(8) {
		b.w(`\<%= not a tag %>` + "\n")
	}
}

func (b *c15B) validTag() {
	simple := []func() string{
		func() string { return `<%= n %>` },
		func() string { return `<%= s %>` },
		func() string { return `<% let ` + b.v() + ` = 1 %>` },
		func() string { return `<%= xs[0] %>` },
		func() string { return `<%= n + 1 %>` },
		func() string { return `<%# note %>` },
		func() string { return "<%# multi\nline\nnote %>" },
		func() string { return "<% let " + b.v() + " =\n 2 %>" },
		func() string { return "<%=\n n\n %>" },
		func() string { return "<% # note\n let " + b.v() + " = 3 %>" },
		func() string { return "<% let " + b.v() + " = 4 # trailing\n %>" },
		func() string { return "<%= n # c\n\n %>" },
		func() string { return "<% # one\n # two\n\n # three\r\n %>" },
	}
	quoted := []func() string{
		func() string { return "<% let " + b.v() + " = `l1\nl2\nl3` %>" },
		func() string { return "<%= `a\nb` %>" },
		func() string { return "<%= \"a\nb\n\" %>" },
		func() string { return "<% let " + b.v() + " = \"q\n\" + `\n\n` %>" },
		func() string { return `<%= "one line" %>` },
		func() string { return "<%= len(`\n`) %>" },
	}
	if b.simple || b.r.Chance(60) {
		b.w(Pick(b.r, simple)())
	} else {
		b.w(Pick(b.r, quoted)())
	}
}

// items: a run of valid material (no fault)
func (b *c15B) items(depth, max int) {
	for n := b.r.Range(0, max); n > 0; n-- {
		switch k := b.r.Intn(10); {
		case !b.simple && b.r.Chance(6):
			b.swallow()
			b.sep()
		case k < 4:
			b.text()
		case k < 8 || depth <= 0 || b.simple:
			b.validTag()
			b.sep()
		default:
			b.validBlock(depth - 1)
			b.sep()
		}
	}
}

func (b *c15B) validBlock(depth int) {
	first := b.line()
	switch b.r.Intn(7) {
	case 0:
		b.w(`<%= if (t) { %>`)
		b.sep()
		b.items(depth, 3)
		b.w(`<% } %>`)
	case 5:
		// a loop body that a nested statement leaves early
		b.w(`<%= for (x) in xs { %>`)
		b.sep()
		b.items(depth, 2)
		b.w(Pick(b.r, []string{
			`<% if (x == 2) { break } %>`,
			`<% if (x == 2) { continue } %>`,
			"<% if (x == 2) {\n continue\n} %>",
			"<% if (x == 1) { %>\n<% continue %>\n<% } %>",
			"<% if (x == 3) { %><% break %><% } %>",
		}))
		b.sep()
		b.items(depth, 2)
		b.w(`<% } %>`)
	case 6:
		// a function body that a nested statement leaves early
		f := "f" + b.v()
		if b.r.Chance(50) {
			b.w("<% let " + f + " = fn(a) {\n if (a) {\n return 1\n }\n return 2\n} %>")
		} else {
			b.w(`<% let ` + f + ` = fn(a) { %>`)
			b.sep()
			b.w("<% if (a) { %>\n<% return 1 %>\n<% } %>")
			b.sep()
			b.items(depth, 2)
			b.w(`<% } %>`)
		}
		b.sep()
		b.w(`<%= ` + f + Pick(b.r, []string{`(t)`, `(false)`}) + ` %>`)
	case 1:
		b.w(`<%= if (false) { %>`)
		b.sep()
		b.items(depth, 2)
		b.w(`<% } else { %>`)
		b.sep()
		b.items(depth, 2)
		b.w(`<% } %>`)
	case 2:
		b.w(`<%= for (x) in xs { %>`)
		b.sep()
		b.items(depth, 3)
		b.w(`<% } %>`)
	case 3:
		f := "f" + b.v()
		b.w(`<% let ` + f + ` = fn(a) { %>`)
		b.sep()
		b.items(depth, 3)
		b.w(`<% } %>`)
		b.sep()
		b.w(`<%= ` + f + `(1) %>`)
	case 4:
		b.w(`<%= wrap() { %>`)
		b.sep()
		b.items(depth, 3)
		b.w(`<% } %>`)
	}
	if !b.simple && b.fail == "" {
		b.blocks = append(b.blocks, first, b.line())
	}
}

// swDef writes (or not) the definition of a user function whose body fails with an unknown identifier and
// returns the expression whose evaluation raises that error: a call of the function, or the bare identifier.
// form < 0: random.
func (b *c15B) swDef(form int) string {
	if form < 0 {
		form = b.r.Intn(c15SwDefs)
	}
	if form == 0 {
		return "zzq"
	}
	g := "g" + b.v()
	call := g + "()"
	first := b.line()
	switch form {
	case 1:
		b.w("<% let " + g + " = fn() {\n return zzq\n} %>")
	case 2:
		b.w("<% let " + g + " = fn() { %>\n<%= zzq %>\n<% } %>")
	case 3:
		b.w("<% let " + g + " = fn(a) {\n let w = a\n if (a) {\n return zzq + w\n }\n} %>")
		call = g + "(1)"
	case 4:
		b.w("<% let " + g + " = fn() { %>\ntext\n<%= for (x) in xs { %>\n<%= zzq %>\n<% } %>\n<% } %>")
	case 5:
		h := "h" + b.v()
		b.w("<% let " + h + " = fn() {\n return zzq\n} %>\n<% let " + g + " = fn() {\n let w = 1\n return " + h + "()\n} %>")
	}
	if b.fail == "" {
		b.swal = append(b.swal, first, b.line())
	}
	return call
}

const c15SwDefs = 6

// in two of three cases the bare unknown identifier (no nested statement), else any form
func (b *c15B) swDefOften0() string {
	if b.r.Chance(66) {
		return b.swDef(0)
	}
	return b.swDef(-1)
}

// the tags that swallow the unknown-identifier error of the expression C and render fine
var c15SwUses = []string{
	`<%= C || "d" %>`,
	`<%= C == nil %>`,
	`<%= C != nil %>`,
	`<%= !C %>`,
	`<% let V = C && t %>`,
	`<%= if (C) { %>a<% } else { %>b<% } %>`,
	`<%= if (false) { %>a<% } else if (C) { %>b<% } %>`,
	`<% if (!C) { %>c<% } %>`,
	`<%= n == C %>`,
	`<%= t && C %>`,
	`<% let V = false || C %>`,
}

func (b *c15B) swUse(i int, call string) {
	u := strings.Replace(c15SwUses[i], "C", call, 1)
	b.w(strings.Replace(u, "V", b.v(), 1))
}

// swallow: an earlier history in which a nested statement fails and the language swallows the error
func (b *c15B) swallow() {
	call := b.swDef(-1)
	if call != "zzq" {
		b.sep()
		if b.r.Chance(30) {
			b.text()
		}
	}
	for n := b.r.Range(1, 2); n > 0; n-- {
		b.swUse(b.r.Intn(len(c15SwUses)), call)
		if n > 1 {
			b.sep()
		}
	}
}

// emitFail writes the failing tag (as a marker) on one line, optionally with neighbours on that line.
func (b *c15B) emitFail() {
	if b.r.Chance(30) {
		b.w(Pick(b.r, []string{"text ", "<%= n %>", "<%# c %> ", "<% let " + b.v() + " = 1 %> ", "  "}))
	}
	b.fail = c15Mark
	b.w(c15Mark)
	b.simple = true
	switch b.r.Intn(4) {
	case 0, 1:
		b.w("\n")
	case 2:
		b.w(" tail\n")
	case 3:
		b.w("<%= n %>\n")
	}
}

// withFail writes prefix items, the failing tag at nesting level `depth` more containers down, suffix items
func (b *c15B) withFail(levels int, noLoop bool) {
	b.items(2, 4)
	if levels == 0 {
		b.emitFail()
		b.items(0, 2)
		return
	}
	kinds := []string{"if", "else", "for", "fn", "wrap", "elseif", "if-sw", "else-sw"}
	if noLoop {
		kinds = []string{"if", "else", "fn", "wrap", "for-fn", "elseif", "if-sw", "else-sw"}
	}
	k := Pick(b.r, kinds)
	b.desc = append(b.desc, k)
	switch k {
	case "if":
		b.w(`<%= if (t) { %>`)
		b.sep()
		b.withFail(levels-1, noLoop)
		b.w(`<% } %>`)
	case "else":
		b.w(`<%= if (false) { %>`)
		b.sep()
		b.items(1, 2)
		b.w(`<% } else { %>`)
		b.sep()
		b.withFail(levels-1, noLoop)
		b.w(`<% } %>`)
	case "if-sw":
		// the condition swallows the error of a nested statement, then the body holds the failing tag
		call := b.swDefOften0()
		if call != "zzq" {
			b.sep()
		}
		b.w(`<%= if (` + Pick(b.r, []string{"!" + call, call + " == nil", call + " || t"}) + `) { %>`)
		b.sep()
		b.withFail(levels-1, noLoop)
		b.w(`<% } %>`)
	case "else-sw":
		call := b.swDefOften0()
		if call != "zzq" {
			b.sep()
		}
		if b.r.Chance(50) {
			b.w(`<%= if (` + call + `) { %>no<% } else { %>`)
		} else {
			b.w(`<%= if (` + call + `) { %>no<% } else if (` + call + ` == nil) { %>`)
		}
		b.sep()
		b.withFail(levels-1, noLoop)
		b.w(`<% } %>`)
	case "elseif":
		b.w(`<%= if (false) { %>no<% } else if (t) { %>`)
		b.sep()
		b.withFail(levels-1, noLoop)
		b.w(`<% } else { %>never<% } %>`)
	case "for":
		b.w(`<%= for (x) in xs { %>`)
		b.sep()
		b.withFail(levels-1, noLoop)
		b.w(`<% } %>`)
	case "wrap":
		b.w(`<%= wrap() { %>`)
		b.sep()
		b.withFail(levels-1, noLoop)
		b.w(`<% } %>`)
	case "fn":
		f := "f" + b.v()
		b.w(`<% let ` + f + ` = fn(a) { %>`)
		b.sep()
		b.withFail(levels-1, noLoop)
		b.w(`<% } %>`)
		b.sep()
		b.w(`<%= ` + f + `(1) %>`)
	case "for-fn":
		f := "f" + b.v()
		b.w(`<%= for (x) in xs { %>`)
		b.sep()
		b.w(`<% let ` + f + ` = fn(a) { %>`)
		b.sep()
		b.withFail(levels-1, noLoop)
		b.w(`<% } %>`)
		b.sep()
		b.w(`<%= ` + f + `(x) %>`)
		b.sep()
		b.w(`<% } %>`)
	}
	b.sep()
	b.items(0, 2)
}

// ---- a case ----

type c15Case struct {
	kind    string // fault family, or "multiline:<variant>"
	runtime bool
	unterm  bool
	multi   string // variant of a multi-line failing tag, "" for the single-line stream
	where   string // containers, e.g. "top", "if/for"
	line    int    // line on which the failing tag begins
	blocks  []int  // line ranges of complete blocks before it
	swal    []int  // line ranges of earlier user functions whose body fails (the callers swallow the error)
	tmpl    string
	control string // same template with a benign tag in place of the failing one
	// script-style failing tags (multi == "script-tag", see oracle_c15_script.go)
	stmt  int    // line on which the failing statement begins (0: not a script-style tag)
	end   int    // last line of the failing tag
	blank string // same template with the text of the in-tag comments in front of the failing statement removed ("": none)
	shape string // generator's description of the script (distribution only, not part of the case text)
}

func (c c15Case) text() string {
	stmt, blank := "", ""
	if c.stmt > 0 {
		stmt = fmt.Sprintf(" stmt=%d-%d", c.stmt, c.end)
	}
	if c.blank != "" {
		blank = " nocomment=" + strconv.Quote(c.blank)
	}
	return fmt.Sprintf("kind=%s runtime=%v unterm=%v multi=%s where=%s line=%d%s blocks=%s swallowed=%s control=%s tmpl=%s%s",
		c.kind, c.runtime, c.unterm, c15dash(c.multi), c.where, c.line, stmt, c15dash(c15Ints(c.blocks)), c15dash(c15Ints(c.swal)),
		strconv.Quote(c.control), strconv.Quote(c.tmpl), blank)
}

func c15Ints(xs []int) string {
	ss := make([]string, len(xs))
	for i, x := range xs {
		ss[i] = strconv.Itoa(x)
	}
	return strings.Join(ss, ",")
}

func c15ParseInts(s string) (xs []int) {
	if s == "-" || s == "" {
		return nil
	}
	for _, x := range strings.Split(s, ",") {
		n, _ := strconv.Atoi(x)
		xs = append(xs, n)
	}
	return xs
}

func c15dash(s string) string {
	if s == "" {
		return "-"
	}
	return s
}

var c15CaseRe = regexp.MustCompile(`^kind=(\S+) runtime=(\S+) unterm=(\S+) multi=(\S+) where=(\S+) line=(\d+)(?: stmt=(\d+)-(\d+))? blocks=(\S+)(?: swallowed=(\S+))? control=("(?:[^"\\]|\\.)*") tmpl=("(?:[^"\\]|\\.)*")(?: nocomment=("(?:[^"\\]|\\.)*"))?$`)

func c15Parse(s string) (c15Case, error) {
	m := c15CaseRe.FindStringSubmatch(s)
	if m == nil {
		// a bare (quoted) template: derive nothing, only the prefix and shift halves are checked
		t, err := strconv.Unquote(s)
		if err != nil {
			t = s
		}
		return c15Case{kind: "raw", tmpl: t, line: -1, where: "?"}, nil
	}
	c := c15Case{kind: m[1], runtime: m[2] == "true", unterm: m[3] == "true", where: m[5]}
	if m[4] != "-" {
		c.multi = m[4]
	}
	c.line, _ = strconv.Atoi(m[6])
	c.stmt, _ = strconv.Atoi(m[7])
	c.end, _ = strconv.Atoi(m[8])
	c.blocks = c15ParseInts(m[9])
	c.swal = c15ParseInts(m[10])
	var err error
	if c.control, err = strconv.Unquote(m[11]); err != nil {
		return c, err
	}
	if c.tmpl, err = strconv.Unquote(m[12]); err != nil {
		return c, err
	}
	if m[13] != "" {
		c.blank, err = strconv.Unquote(m[13])
	}
	return c, err
}

func c15Gen(r *Rng) c15Case {
	b := &c15B{r: r}
	var c c15Case
	var tag string
	var script *c15Fail
	noLoop, prelude := false, ""
	if x := r.Intn(100); x < 10 {
		m := Pick(r, c15Multis)
		c.kind, c.multi, c.runtime, tag = "multiline", m.variant, m.runtime, m.tag
	} else if x < 24 {
		// a script-style tag: several statements on several lines, the failing one anywhere among them
		f := Pick(r, c15ScriptFails)
		script = &f
		c.kind, c.runtime, c.unterm, c.multi, noLoop, prelude = f.kind, f.runtime, f.unterm, "script-tag", f.noLoop, f.prelude()
	} else {
		f := Pick(r, c15Fails)
		c.kind, c.runtime, c.unterm, tag, noLoop, prelude = f.kind, f.runtime, f.unterm, f.tag, f.noLoop, f.prelude()
	}
	b.w(prelude)
	levels := []int{0, 0, 0, 1, 1, 1, 2, 2, 3}[r.Intn(9)]
	b.withFail(levels, noLoop)
	raw := b.sb.String()
	i := strings.Index(raw, c15Mark)
	c.line = 1 + strings.Count(raw[:i], "\n")
	if script != nil {
		pre, preBlank, post, shape := c15GenScript(r, b, *script)
		tag = pre + script.tag + post
		c.stmt = c.line + strings.Count(pre, "\n")
		c.end = c.line + strings.Count(tag, "\n")
		c.shape = shape
		c.tmpl = strings.Replace(raw, c15Mark, tag, 1)
		c.control = strings.Replace(raw, c15Mark, pre+"n"+post, 1)
		if preBlank != pre {
			c.blank = strings.Replace(raw, c15Mark, preBlank+script.tag+post, 1)
		}
	} else {
		c.tmpl = strings.Replace(raw, c15Mark, tag, 1)
		c.control = strings.Replace(raw, c15Mark, "<%= n %>", 1)
	}
	c.blocks = b.blocks
	c.swal = b.swal
	c.where = "top"
	if len(b.desc) > 0 {
		c.where = strings.Join(b.desc, "/")
	}
	return c
}

// ---- the check ----

var c15Line = regexp.MustCompile(`^line (\d+):`)
var c15LaterLine = regexp.MustCompile(`\nline (\d+):`)

// split "line N: rest" ; ok=false when the prefix is missing
func c15Split(msg string) (n int, rest string, ok bool) {
	m := c15Line.FindStringSubmatch(msg)
	if m == nil {
		return 0, msg, false
	}
	n, _ = strconv.Atoi(m[1])
	return n, msg[len(m[0]):], true
}

// the follow-up messages of a multi-message parse error carry line prefixes of their own; move them by -k
func c15Unshift(rest string, k int) string {
	return c15LaterLine.ReplaceAllStringFunc(rest, func(s string) string {
		m := c15LaterLine.FindStringSubmatch(s)
		n, _ := strconv.Atoi(m[1])
		return "\nline " + strconv.Itoa(n-k) + ":"
	})
}

func c15Render(src string) Obs {
	return safeCall(3*time.Second, func() (string, error) { return plush.Render(src, c15Ctx()) })
}

func c15Check(rep *Report, c c15Case) {
	ct := c.text()
	if c.control != "" {
		if o := c15Render(c.control); o.Kind() != "OK" {
			// the generator promised that everything but the failing tag is valid
			rep.Tag("skipped:control-not-ok")
			return
		}
	}
	o := c15Render(c.tmpl)
	fam := c.kind
	if c.multi != "" {
		fam = "multiline:" + c.multi
	}
	rep.Count(ct, true)
	rep.Tag("kind:" + fam)
	rep.Tag("where-depth:" + strconv.Itoa(strings.Count(c.where, "/")+c15b2i(c.where != "top")))
	rep.Tag("phase:" + map[bool]string{true: "render", false: "parse"}[c.runtime])
	if c.stmt > 0 {
		rep.Tag("script-fault:" + c.kind)
		rep.Tag(fmt.Sprintf("script-stmt-line-offset:%d", c15min(c.stmt-c.line, 6)))
		if c.shape != "" {
			rep.Tag("script-shape:" + c.shape)
		}
	}
	switch o.Kind() {
	case "PANIC":
		rep.Fail(Failure{Case: ct, Kind: "panic", Site: o.Site, What: "Render panicked: " + o.Panic})
		return
	case "HANG":
		rep.Fail(Failure{Case: ct, Kind: "hang", Site: "c15-render", What: "Render did not return within 3s"})
		return
	case "OK":
		// no error returned: C15 speaks about returned errors only (C04/C05 own the missing error)
		rep.Tag("no-error:" + fam)
		return
	}
	msg := o.Err.Error()
	n, rest, ok := c15Split(msg)
	if !ok {
		rep.Fail(Failure{Case: ct, Kind: "wrong-error", Site: "no-line-prefix:" + fam,
			What: "error must start with 'line N:'; got " + strconv.Quote(msg)})
	}
	// which line
	if ok && c.line > 0 {
		last := 1 + strings.Count(c.tmpl, "\n")
		switch {
		case c.unterm:
			if n < c.line || n > last {
				rep.Fail(Failure{Case: ct, Kind: "wrong-error", Site: "unterminated-string-line-outside-range",
					What: fmt.Sprintf("input ends inside an unterminated string that starts in the tag on line %d; expected a line in [%d,%d], got %q", c.line, c.line, last, msg)})
			}
		case n != c.line:
			site := ""
			switch {
			case c.runtime && c15InBlocks(c.swal, n) && n < c.line:
				// the line of a statement inside an EARLIER tag whose failure the language swallowed
				site = "runtime-error-line-of-earlier-swallowed-stmt"
			case c.stmt > 0:
				site = c15ScriptSite(c, n)
			case c.multi != "":
				site = "wrong-line-multiline-tag:" + c.multi + map[bool]string{true: ":render", false: ":parse"}[c.runtime]
			case c.kind == "fail-after-user-fn-call" && n <= 3:
				site = "runtime-error-line-of-callee-stmt"
			case c.kind == "fail-after-swallowed-fn-error" && n <= 3:
				site = "runtime-error-line-of-swallowed-callee-stmt"
			case c.runtime && c15InBlocks(c.blocks, n) && n < c.line:
				site = "runtime-error-line-of-last-inner-stmt"
			case !c.runtime && n == c.line+1 && c15TagEndsLine(c):
				site = "syntax-error-line-after-tag-end-newline:" + fam
			default:
				d := "later"
				if n < c.line {
					d = "earlier"
				}
				site = "wrong-line:" + fam + ":" + d
			}
			what := fmt.Sprintf("failing tag begins on line %d (%s); error says %q", c.line, c.where, msg)
			if c.stmt > 0 {
				what = fmt.Sprintf("failing tag spans lines %d-%d (%s), the failing statement begins on line %d; error says %q", c.line, c.end, c.where, c.stmt, msg)
			}
			rep.Fail(Failure{Case: ct, Kind: "wrong-error", Site: site, What: what})
		}
	}
	// comments count as lines and as nothing else: without the text of the in-tag comments the error is the same
	if c.blank != "" {
		ph := map[bool]string{true: "render", false: "parse"}[c.runtime]
		bo := c15Render(c.blank)
		rep.Evaluations++
		rep.Tag("comment-text-removed:" + ph)
		switch bo.Kind() {
		case "PANIC":
			rep.Fail(Failure{Case: ct, Kind: "panic", Site: bo.Site, What: "without the text of the in-tag comments Render panicked: " + bo.Panic})
		case "HANG":
			rep.Fail(Failure{Case: ct, Kind: "hang", Site: "c15-render-nocomment", What: "without the text of the in-tag comments Render did not return"})
		case "OK":
			rep.Fail(Failure{Case: ct, Kind: "missing-error", Site: "in-tag-comment-text-changes-error:" + ph,
				What: fmt.Sprintf("with comments: %q; same template with the text of the in-tag comments removed (line ends kept): no error", msg)})
		default:
			if bmsg := bo.Err.Error(); bmsg != msg {
				rep.Fail(Failure{Case: ct, Kind: "wrong-error", Site: "in-tag-comment-text-changes-error:" + ph,
					What: fmt.Sprintf("with comments: %q; same template with the text of the in-tag comments removed (line ends kept): %q", msg, bmsg)})
			}
		}
	}
	// shifting
	for _, k := range []int{1, 2, 7} {
		so := c15Render(strings.Repeat("\n", k) + c.tmpl)
		rep.Evaluations++
		switch so.Kind() {
		case "PANIC":
			rep.Fail(Failure{Case: ct, Kind: "panic", Site: so.Site, What: fmt.Sprintf("with %d leading newlines Render panicked: %s", k, so.Panic)})
			continue
		case "HANG":
			rep.Fail(Failure{Case: ct, Kind: "hang", Site: "c15-render-shifted", What: fmt.Sprintf("with %d leading newlines Render did not return", k)})
			continue
		case "OK":
			rep.Fail(Failure{Case: ct, Kind: "missing-error", Site: "shift-removes-error:" + fam,
				What: fmt.Sprintf("unshifted: %q; with %d leading newlines: no error", msg, k)})
			continue
		}
		smsg := so.Err.Error()
		sn, srest, sok := c15Split(smsg)
		if !ok || !sok {
			if ok != sok || smsg != msg {
				rep.Fail(Failure{Case: ct, Kind: "wrong-error", Site: "shift-changes-message:" + fam,
					What: fmt.Sprintf("unshifted %q; with %d leading newlines %q", msg, k, smsg)})
			}
			continue
		}
		if sn != n+k {
			rep.Fail(Failure{Case: ct, Kind: "wrong-error", Site: "shift-not-additive:" + fam,
				What: fmt.Sprintf("unshifted %q; with %d leading newlines expected line %d, got %q", msg, k, n+k, smsg)})
		}
		if c15Unshift(srest, k) != rest {
			rep.Fail(Failure{Case: ct, Kind: "wrong-error", Site: "shift-changes-message:" + fam,
				What: fmt.Sprintf("unshifted %q; with %d leading newlines %q (only the line numbers may move)", msg, k, smsg)})
		}
	}
}

func c15min(a, b int) int {
	if a < b {
		return a
	}
	return b
}

func c15b2i(b bool) int {
	if b {
		return 1
	}
	return 0
}

func c15InBlocks(blocks []int, n int) bool {
	for i := 0; i+1 < len(blocks); i += 2 {
		if blocks[i] <= n && n <= blocks[i+1] {
			return true
		}
	}
	return false
}

// the failing tag's line ends with the tag's own "%>" (the closer is stamped after the newline is read)
func c15TagEndsLine(c c15Case) bool {
	lines := strings.Split(c.tmpl, "\n")
	if c.line < 1 || c.line > len(lines) {
		return false
	}
	l := strings.TrimRight(lines[c.line-1], "\r")
	return strings.HasSuffix(l, "%>")
}

func init() {
	oracles["C15"] = func(cfg Config) []*Report {
		rep := NewReport("C15", "C15", cfg)
		rep.Rule = "multi-line templates with exactly one failing tag (77 single-line faults in 16 kinds: unknown identifier, failing helper, type error, index out of range, missing paren/brace/bracket, unexpected token, invalid if condition, invalid nested index, unexpected tag end, bad literal, break/continue outside a loop, a fault after a successful user-function call in the same tag, a fault after a user-function call in the same tag whose body failed with an unknown identifier that the language swallowed (== nil, ||, !), input ending in an unterminated string; 10% multi-line failing tags in families of their own; 14% script-style failing tags: one <% %> / <%= %> tag of several statements on several lines with the failing statement (any of the 66 one-statement faults) first, in the middle or last, directly in the tag or in an if / else / for / fn body written in the same tag, after any mix IN THE SAME TAG of healthy statements, # comments on their own line or trailing a statement, blank lines, \r\n line ends, multi-line strings and statements that span lines; every one-statement fault is also run once through 10 fixed script shapes) at a generator-known line, at top level or 1-3 levels inside if/else/else-if/for/fn/block-helper bodies (also if/else/else-if whose CONDITION swallows an unknown identifier, bare or raised inside a user function body), after a random mix of text, escaped tags, valid tags, multi-line \" and ` strings, # comments, <%# %> tags, complete earlier blocks (also loops / functions left early by break, continue, return) and multi-step histories (an earlier tag renders fine although a statement nested in a user function it calls failed with an unknown identifier that ||, &&, ==, !=, ! or an if / else-if condition swallowed; 6 shapes of failing function x 11 swallowing tags; every fault x every swallowing tag is also run once at top level); every case is rendered with 0,1,2,7 leading newlines; the same template with a benign tag in place of the failing one must render (else the case is skipped); non-trivial = all; distinct by template text; 100% reach the parser message / compile() error path"
		rep.Notes = append(rep.Notes,
			"not checked: faults that plush reports no error for (missing closing brace at EOF, unterminated string with nothing pending, `1 2`): C15 constrains returned errors only; they are counted under no-error:*",
			"multi-message parser errors: only the first message's line is compared with the known line; follow-up messages must shift by k like the first",
			"multi-line failing tags are generated in 10% of the cases and reported under wrong-line-multiline-tag:<variant> (the statement names the line on which the TAG begins)",
			"multi-step histories: the earlier tags are valid by the oracle's own control (the template with a benign tag in place of the failing one must render without error); a wrong line that points into an earlier failing-function body is reported as runtime-error-line-of-earlier-swallowed-stmt, one that points into the body of a function called (and its error swallowed) by the failing tag itself as runtime-error-line-of-swallowed-callee-stmt",
			"script-style failing tags (multi=script-tag; stmt=S-E in the case text: line of the failing statement, last line of the tag): the error must name the line of the tag; the line S of the failing statement itself (syntax errors: a line in S..E, the token at which the parser gave up) is plush's known reading and is reported under the existing ids wrong-line-multiline-tag:newline-after-opener / newline-mid-statement (same root cause: the line of the statement / token, not of the tag); any other line is reported as wrong-line-script-tag:{before-tag, inside-tag-before-failing-statement, inside-tag-after-failing-statement, after-tag}. A fault that leaves a brace open is generated directly in the tag only (inside a body of the same tag it would take the body's closing brace and the parser's error belongs to no single statement)",
			"comments are counted as lines and as nothing else: when the failing tag holds # comments in front of the failing statement, the same template with the text of those comments removed (line ends kept; nocomment= in the case text) must return the identical error (in-tag-comment-text-changes-error); a tag closer inside a # comment is not generated",
			"an error inside an else-if CONDITION or a partial is not generated (which tag 'contains the failing statement' is open there)")
		if cfg.Arg != "" {
			c, err := c15Parse(cfg.Arg)
			if err != nil {
				rep.Notes = append(rep.Notes, "cannot parse --arg: "+err.Error())
				return []*Report{rep}
			}
			c15Check(rep, c)
			return []*Report{rep}
		}
		r := NewRng(cfg.Seed).Fork(15)
		// every fault once at top level on line 1 and on line 3 (smallest cases first)
		for _, f := range c15Fails {
			for _, pre := range []string{"", "a\n\n"} {
				pre = f.prelude() + pre
				c15Check(rep, c15Case{kind: f.kind, runtime: f.runtime, unterm: f.unterm, where: "top",
					line: 1 + strings.Count(pre, "\n"), tmpl: pre + f.tag + "\nz\n", control: pre + "<%= n %>\nz\n"})
			}
		}
		for _, m := range c15Multis {
			c15Check(rep, c15Case{kind: "multiline", multi: m.variant, runtime: m.runtime, where: "top",
				line: 2, tmpl: "a\n" + m.tag + "\nz\n", control: "a\n<%= n %>\nz\n"})
		}
		// every one-statement fault in every fixed script shape (a tag of several lines, the failing statement after
		// comments / healthy statements / blank lines / multi-line strings of the same tag), tag on line 2
		for _, f := range c15ScriptFails {
			for _, sh := range c15ScriptShapes {
				if sh.body && c15OpensBrace(f) {
					continue
				}
				c := c15ScriptCase(f, "top", "a\n", sh.pre, sh.preBlank, sh.post, "\nz\n")
				c.shape = "fixed:" + sh.name
				c15Check(rep, c)
			}
		}
		// every fault at top level after every kind of tag that swallows the error of a nested statement
		// (a multi-step history: the earlier tag renders fine, a statement inside it failed)
		for i, f := range c15Fails {
			for j := range c15SwUses {
				b := &c15B{r: r}
				b.w(f.prelude())
				call := b.swDef(1 + (i+j)%(c15SwDefs-1))
				b.w("\n")
				b.swUse(j, call)
				b.w("\na\n")
				pre := b.sb.String()
				c15Check(rep, c15Case{kind: f.kind, runtime: f.runtime, unterm: f.unterm, where: "top", swal: b.swal,
					line: 1 + strings.Count(pre, "\n"), tmpl: pre + f.tag + "\nz\n", control: pre + "<%= n %>\nz\n"})
			}
		}
		n := cfg.N(20000, 320000) // thorough: 320000 (was 400000) keeps the tier inside its 5 min budget now that the histories make templates ~20% longer
		for i := 0; i < n && !rep.Full(); i++ {
			c15Check(rep, c15Gen(r))
		}
		return []*Report{rep}
	}
}
