package main

import (
	"context"
	"errors"
	"fmt"
	"reflect"
	"regexp"
	"strconv"
	"strings"
	"time"

	plush "github.com/gobuffalo/plush/v5"
	"github.com/gobuffalo/plush/v5/helpers/hctx"
)

// C12 oracle (model-free): Go helpers receive exactly the supplied arguments, in order, or are not
// called.
//
// A helper of every signature of a family is built with reflect.MakeFunc; it RECORDS how often it
// ran and what it received (type and %#v of every argument; for a helper context whether it has a
// block and what the block renders). It is called from a template with every call shape of a
// family. What the property demands is computed from the signature's Go types and the supplied Go
// values with Go's own assignability (reflect.Type.AssignableTo), never from plush's binding code.

// ---------------------------------------------------------------------------------------------
// signatures

var c12ErrT = reflect.TypeOf((*error)(nil)).Elem()
var c12CtxST = reflect.TypeOf(plush.HelperContext{})
var c12CtxIT = reflect.TypeOf((*hctx.HelperContext)(nil)).Elem()
var c12MapT = reflect.TypeOf(map[string]interface{}{})

var c12TypeNames = []string{"int", "string", "bool", "any", "map", "strs"}
var c12Types = map[string]reflect.Type{
	"int":    reflect.TypeOf(0),
	"string": reflect.TypeOf(""),
	"bool":   reflect.TypeOf(false),
	"any":    reflect.TypeOf((*interface{})(nil)).Elem(),
	"map":    c12MapT,
	"strs":   reflect.TypeOf([]string{}),
	"opts":   c12MapT,
	"ctxS":   c12CtxST,
	"ctxI":   c12CtxIT,
	// interface types that are NOT helper contexts although a plush.HelperContext value would fit in them
	// (stage F: parameters left without an argument)
	"gctx": reflect.TypeOf((*context.Context)(nil)).Elem(),
	"hcx":  reflect.TypeOf((*hctx.Context)(nil)).Elem(),
	"f64":  reflect.TypeOf(float64(0)),
	"iptr": reflect.TypeOf((*int)(nil)),
	// stage G (oracle_c12_kinds.go): pointer, struct, named and non-empty interface parameter types
	"uptr": reflect.TypeOf((*c12gUser)(nil)),
	"aptr": reflect.TypeOf((*c12gAdmin)(nil)),
	"ustr": reflect.TypeOf(c12gUser{}),
	"strg": reflect.TypeOf((*fmt.Stringer)(nil)).Elem(),
	"nstr": reflect.TypeOf(c12gStr("")),
}

// c12CtxVal is a context.Context of the oracle's own (argument kind 'c'): assignable to context.Context and
// interface{}, to nothing else of the family.
type c12CtxVal struct {
	context.Context
	id int
}

// tails: what follows the fixed parameters
var c12Tails = []string{"-", "opts", "ctxS", "ctxI", "opts+ctxS", "opts+ctxI", "...string", "...any", "...int"}

// result shapes: none (), T (string), N (int), T,nil / T,err (string, error), nilerr / err (error)
var c12ResShapes = []string{"none", "T", "N", "T,nil", "T,err", "nilerr", "err"}

type c12Sig struct {
	fixed []string
	tail  string
	res   string
}

func (s c12Sig) String() string {
	return "(" + strings.Join(s.fixed, ",") + ";" + s.tail + ")->" + s.res
}

// params lists the parameter kinds in order; for a variadic signature the last entry is the ELEMENT kind.
func (s c12Sig) params() (kinds []string, variadic bool) {
	kinds = append(kinds, s.fixed...)
	switch {
	case s.tail == "-":
	case strings.HasPrefix(s.tail, "..."):
		kinds = append(kinds, strings.TrimPrefix(s.tail, "..."))
		variadic = true
	default:
		kinds = append(kinds, strings.Split(s.tail, "+")...)
	}
	return
}

func (s c12Sig) funcType() reflect.Type {
	kinds, variadic := s.params()
	in := []reflect.Type{}
	for i, k := range kinds {
		t := c12Types[k]
		if variadic && i == len(kinds)-1 {
			t = reflect.SliceOf(t)
		}
		in = append(in, t)
	}
	out := []reflect.Type{}
	switch s.res {
	case "T":
		out = append(out, c12Types["string"])
	case "N":
		out = append(out, c12Types["int"])
	case "T,nil", "T,err":
		out = append(out, c12Types["string"], c12ErrT)
	case "nilerr", "err":
		out = append(out, c12ErrT)
	}
	return reflect.FuncOf(in, out, variadic)
}

func (s c12Sig) results() []reflect.Value {
	boom := reflect.ValueOf(errors.New("c12boom")).Convert(c12ErrT)
	switch s.res {
	case "T":
		return []reflect.Value{reflect.ValueOf("RES")}
	case "N":
		return []reflect.Value{reflect.ValueOf(42)}
	case "T,nil":
		return []reflect.Value{reflect.ValueOf("RES"), reflect.Zero(c12ErrT)}
	case "T,err":
		return []reflect.Value{reflect.ValueOf("RES"), boom}
	case "nilerr":
		return []reflect.Value{reflect.Zero(c12ErrT)}
	case "err":
		return []reflect.Value{boom}
	}
	return nil
}

func c12ParseSig(s string) (c12Sig, error) {
	var sig c12Sig
	i := strings.Index(s, ")->")
	if !strings.HasPrefix(s, "(") || i < 0 {
		return sig, fmt.Errorf("bad signature %q", s)
	}
	sig.res = s[i+3:]
	body := s[1:i]
	j := strings.Index(body, ";")
	if j < 0 {
		return sig, fmt.Errorf("bad signature %q", s)
	}
	if body[:j] != "" {
		sig.fixed = strings.Split(body[:j], ",")
	}
	sig.tail = body[j+1:]
	for _, f := range sig.fixed {
		if _, ok := c12Types[f]; !ok {
			return sig, fmt.Errorf("bad parameter type %q", f)
		}
	}
	okTail, okRes := false, false
	for _, t := range append(append([]string{}, c12Tails...), c12gTails...) {
		okTail = okTail || t == sig.tail
	}
	for _, r := range c12ResShapes {
		okRes = okRes || r == sig.res
	}
	if !okTail || !okRes {
		return sig, fmt.Errorf("bad signature %q", s)
	}
	return sig, nil
}

// ---------------------------------------------------------------------------------------------
// recording

type c12Rec struct {
	calls int
	got   []string // description of every received argument, variadic elements flattened, prefixed by "..."
	trace []int    // positions of the arguments in the order they were evaluated (wrapped flavour)
}

func c12Val(v reflect.Value) string {
	if v.Kind() == reflect.Interface {
		if v.IsNil() {
			return "nil"
		}
		v = v.Elem()
	}
	if v.Type() == c12CtxST {
		return "plush.HelperContext:<live>"
	}
	switch v.Kind() {
	case reflect.Map, reflect.Slice:
		if v.Len() == 0 {
			return v.Type().String() + ":<empty>"
		}
	case reflect.Func:
		if v.IsNil() {
			return v.Type().String() + ":<nil>"
		}
		return v.Type().String() + ":<func>"
	case reflect.Ptr:
		if v.IsNil() {
			return v.Type().String() + ":<nil>"
		}
		switch v.Elem().Kind() {
		case reflect.Struct, reflect.Int, reflect.String, reflect.Bool:
			return fmt.Sprintf("%s:&%#v", v.Type(), v.Elem().Interface())
		}
		return v.Type().String() + ":<pointer>"
	}
	return fmt.Sprintf("%s:%#v", v.Type(), v.Interface())
}

func c12CtxDesc(hc hctx.HelperContext) string {
	if !hc.HasBlock() {
		return "ctx(block=false)"
	}
	s, err := hc.Block()
	if err != nil {
		return "ctx(block=true,err)"
	}
	return "ctx(block=true," + strconv.Quote(s) + ")"
}

func c12Describe(v reflect.Value, kind string) string {
	switch kind {
	case "ctxS":
		return c12CtxDesc(v.Interface().(plush.HelperContext))
	case "ctxI":
		if v.IsNil() {
			return "ctx(nil)"
		}
		return c12CtxDesc(v.Interface().(hctx.HelperContext))
	}
	return c12Val(v)
}

func c12MakeFn(sig c12Sig, rec *c12Rec) interface{} {
	kinds, variadic := sig.params()
	res := sig.results()
	return reflect.MakeFunc(sig.funcType(), func(args []reflect.Value) []reflect.Value {
		rec.calls++
		got := []string{}
		for i, a := range args {
			if variadic && i == len(args)-1 {
				for j := 0; j < a.Len(); j++ {
					got = append(got, "..."+c12Val(a.Index(j)))
				}
				continue
			}
			got = append(got, c12Describe(a, kinds[i]))
		}
		rec.got = got
		return res
	}).Interface()
}

// ---------------------------------------------------------------------------------------------
// calls

const c12ArgKinds = "isbnhl" // int, string, bool, nil, hash literal, []string variable

// c12ArgKindsExt: plus 'c', a context.Context variable, and 'f', a float literal (stage F and replay only;
// stages A-C enumerate c12ArgKinds)
const c12ArgKindsExt = c12ArgKinds + "cf" + c12gVarKinds

type c12Call struct {
	args string // one letter of c12ArgKinds per argument
	blk  bool
	wrap bool // every argument is wrapped in tr(pos, arg), a helper that logs pos and returns arg unchanged
}

func c12ArgText(k byte, pos int) string {
	p := strconv.Itoa(pos)
	switch k {
	case 'i':
		return strconv.Itoa(11 + pos)
	case 's':
		return `"s` + p + `"`
	case 'b':
		return "true"
	case 'n':
		return "nil"
	case 'h':
		return `{"k` + p + `": ` + p + `}`
	case 'l':
		return "strs" + p
	case 'c':
		return "gctx" + p
	case 'f':
		return p + ".5"
	}
	if strings.IndexByte(c12gVarKinds, k) >= 0 {
		return "g" + string(k) + p // a context variable (stage G)
	}
	return "?"
}

func c12ArgValue(k byte, pos int) interface{} {
	p := strconv.Itoa(pos)
	switch k {
	case 'i':
		return 11 + pos
	case 's':
		return "s" + p
	case 'b':
		return true
	case 'h':
		return map[string]interface{}{"k" + p: pos}
	case 'l':
		return []string{"x" + p}
	case 'c':
		return c12CtxVal{id: pos}
	case 'f':
		return float64(pos) + 0.5
	}
	return c12gArgValue(k, pos)
}

const c12Name = "recfn"

// c12IsNilKind: the argument is nil itself - not a typed nil pointer / map / slice
func c12IsNilKind(k byte) bool { return k == 'n' }

func (c c12Call) template() string {
	parts := []string{}
	for i := 0; i < len(c.args); i++ {
		a := c12ArgText(c.args[i], i)
		if c.wrap {
			a = "tr(" + strconv.Itoa(i) + ", " + a + ")"
		}
		parts = append(parts, a)
	}
	s := "<%= " + c12Name + "(" + strings.Join(parts, ", ") + ")"
	if c.blk {
		s += " { %>blk<% }"
	}
	return s + " %>"
}

func (c c12Call) enc() string {
	a := c.args
	if a == "" {
		a = "-"
	}
	return "call=" + a + " blk=" + c12B(c.blk) + " wrap=" + c12B(c.wrap)
}

func c12B(b bool) string {
	if b {
		return "1"
	}
	return "0"
}

// ---------------------------------------------------------------------------------------------
// what the property demands

type c12Want struct {
	checked  bool     // false: the statement is silent about this pair
	silent   string   // why it is silent
	partial  bool     // silent about WHETHER the helper runs; if it runs, args (with "*" = anything) is what it may receive
	omitFrom int      // partial: index in args of the first parameter that has no argument
	err      bool     // an error that names the call; helper not invoked
	errWhy   string   // too-many-arguments | unassignable-argument
	badPos   int      // position of the first unassignable argument
	args     []string // expected received arguments (when invoked)
	autoFrom int      // index in args from which on the values are auto-supplied
}

// autoSuffix: how many trailing parameters can be supplied automatically: an options map and/or a
// helper context, in that order, at the very end of a non-variadic parameter list.
func c12AutoSuffix(kinds []string) int {
	n := len(kinds)
	isCtx := func(k string) bool { return k == "ctxS" || k == "ctxI" }
	isMap := func(k string) bool { return k == "opts" || k == "map" }
	switch {
	case n >= 2 && isCtx(kinds[n-1]) && isMap(kinds[n-2]):
		return 2
	case n >= 1 && (isCtx(kinds[n-1]) || isMap(kinds[n-1])):
		return 1
	}
	return 0
}

func c12Expect(sig c12Sig, call c12Call) c12Want {
	kinds, variadic := sig.params()
	n := len(call.args)
	P := len(kinds)
	w := c12Want{checked: true, badPos: -1}
	paramAt := func(i int) (string, bool) { // kind, isVariadicElement
		if variadic && i >= P-1 {
			return kinds[P-1], true
		}
		return kinds[i], false
	}
	if !variadic && n > P {
		w.err, w.errWhy = true, "too-many-arguments"
		return w
	}
	if variadic && n < P-1 {
		// silent about the outcome; but IF the helper runs it has the supplied arguments, unchanged, and nothing invented
		pw := c12Want{silent: "too-few-arguments-for-variadic"}
		if args, ok := c12Supplied(kinds[:n], call); ok {
			pw.partial, pw.omitFrom = true, n
			pw.args = append(args, c12OmittedZero(kinds[n:P-1])...)
			pw.autoFrom = len(pw.args)
		}
		return pw
	}
	// assignability, left to right
	for i := 0; i < n; i++ {
		k, isVar := paramAt(i)
		pt := c12Types[k]
		v := c12ArgValue(call.args[i], i)
		var ev reflect.Value
		if v == nil {
			ev = reflect.Zero(pt)
		} else {
			if !reflect.TypeOf(v).AssignableTo(pt) {
				w.err, w.errWhy, w.badPos = true, "unassignable-argument", i
				w.args = nil
				return w
			}
			ev = reflect.ValueOf(v).Convert(pt)
		}
		d := ""
		switch {
		case isVar:
			d = "..." + c12Val(ev)
		case k == "ctxS":
			d = "ctx(block=false)" // only nil is assignable: the zero value
		case k == "ctxI":
			d = "ctx(nil)"
		default:
			d = c12Val(ev)
		}
		w.args = append(w.args, d)
	}
	w.autoFrom = len(w.args)
	if variadic {
		return w
	}
	missing := P - n
	if missing > c12AutoSuffix(kinds) {
		// The statement does not say whether such a call is an error or runs with zero values. Either way
		// "helpers receive exactly the supplied arguments ... or are not called": IF the helper runs, the
		// supplied arguments arrive unchanged and a parameter without an argument that is no options map /
		// helper context holds nothing but its type's zero value (only those two are "supplied automatically").
		pw := c12Want{silent: "missing-parameter-that-is-not-a-trailing-options-map-or-helper-context", partial: true, omitFrom: n}
		pw.args = append(append([]string{}, w.args...), c12OmittedZero(kinds[n:])...)
		pw.autoFrom = len(pw.args)
		return pw
	}
	for i := n; i < P; i++ {
		switch kinds[i] {
		case "ctxS", "ctxI":
			if call.blk {
				w.args = append(w.args, `ctx(block=true,"blk")`)
			} else {
				w.args = append(w.args, "ctx(block=false)")
			}
		default:
			w.args = append(w.args, "map[string]interface {}:<empty>")
		}
	}
	return w
}

// c12Supplied describes the supplied arguments as fixed parameters of the given kinds receive them; ok=false
// when one of them is not assignable.
func c12Supplied(kinds []string, call c12Call) (args []string, ok bool) {
	for i, k := range kinds {
		pt := c12Types[k]
		v := c12ArgValue(call.args[i], i)
		ev := reflect.Zero(pt)
		if v != nil {
			if !reflect.TypeOf(v).AssignableTo(pt) {
				return nil, false
			}
			ev = reflect.ValueOf(v).Convert(pt)
		}
		switch k {
		case "ctxS":
			args = append(args, "ctx(block=false)")
		case "ctxI":
			args = append(args, "ctx(nil)")
		default:
			args = append(args, c12Val(ev))
		}
	}
	return args, true
}

// c12OmittedZero: what parameters WITHOUT an argument may hold when the helper runs although the statement
// does not promise it runs: a helper context parameter anything ("*": it is a helper context, supplied or
// zero), a map parameter a nil or empty map (c12Val does not tell them apart), every other parameter its
// zero value - a nil interface, 0, "", false, a nil slice.
func c12OmittedZero(kinds []string) []string {
	out := []string{}
	for _, k := range kinds {
		switch k {
		case "ctxS", "ctxI":
			out = append(out, "*")
		default:
			out = append(out, c12Val(reflect.Zero(c12Types[k])))
		}
	}
	return out
}

// ---------------------------------------------------------------------------------------------
// running one pair

type c12Gen struct {
	rep   *Report
	fns   map[string]interface{}
	rec   *c12Rec
	tmpls map[string]*plush.Template
}

func c12NewGen(rep *Report) *c12Gen {
	return &c12Gen{rep: rep, fns: map[string]interface{}{}, rec: &c12Rec{}, tmpls: map[string]*plush.Template{}}
}

func (g *c12Gen) fn(sig c12Sig) interface{} {
	k := sig.String()
	f, ok := g.fns[k]
	if !ok {
		f = c12MakeFn(sig, g.rec)
		g.fns[k] = f
	}
	return f
}

func (g *c12Gen) check(sig c12Sig, call c12Call) {
	rep := g.rep
	if rep.Full() {
		return
	}
	tmpl := call.template()
	caseText := "sig=" + sig.String() + " " + call.enc() + " | " + tmpl
	rec := g.rec
	rec.calls, rec.got, rec.trace = 0, nil, nil
	fn := g.fn(sig)
	o := safeCall(3*time.Second, func() (string, error) {
		t, ok := g.tmpls[tmpl]
		if !ok {
			var err error
			t, err = plush.NewTemplate(tmpl)
			if err != nil {
				return "", fmt.Errorf("c12-parse: %w", err)
			}
			if len(g.tmpls) > 20000 {
				g.tmpls = map[string]*plush.Template{}
			}
			g.tmpls[tmpl] = t
		}
		ctx := plush.NewContext()
		ctx.Set(c12Name, fn)
		for i := 0; i < len(call.args); i++ {
			if call.args[i] == 'l' {
				ctx.Set("strs"+strconv.Itoa(i), c12ArgValue('l', i))
			}
			if call.args[i] == 'c' {
				ctx.Set("gctx"+strconv.Itoa(i), c12ArgValue('c', i))
			}
			if strings.IndexByte(c12gVarKinds, call.args[i]) >= 0 {
				ctx.Set(c12ArgText(call.args[i], i), c12ArgValue(call.args[i], i))
			}
		}
		if call.wrap {
			ctx.Set("tr", func(i int, v interface{}) interface{} {
				rec.trace = append(rec.trace, i)
				return v
			})
		}
		return t.Exec(ctx)
	})
	w := c12Expect(sig, call)
	kinds, variadic := sig.params()
	rep.Count(caseText, len(call.args) > 0 || len(kinds) > 0)
	rep.Tag("result:" + o.Kind())
	rep.Tag("tail:" + sig.tail)
	rep.Tag("nargs:" + strconv.Itoa(len(call.args)))
	fail := func(kind, site, what string) {
		rep.Fail(Failure{Case: caseText, Kind: kind, Site: site, What: what})
	}
	if o.Err != nil && strings.HasPrefix(o.Err.Error(), "c12-parse:") {
		fail("wrong-error", "call-shape-does-not-parse", "the call does not parse: "+c12Clean(o.Err.Error()))
		return
	}
	if !w.checked && !w.partial {
		rep.Tag("unchecked:" + w.silent)
		return
	}
	if w.partial {
		// the statement is silent about whether the helper runs (and about crashes: C04); what it says about
		// a helper that DOES run is checked
		rep.Tag("partial:" + w.silent)
		if o.Kind() == "HANG" || o.Kind() == "PANIC" {
			rep.Tag("partial:unchecked:" + o.Kind())
			return
		}
	}
	if o.Kind() == "HANG" {
		fail("hang", "c12-call", "render did not return within 3s")
		return
	}
	if o.Kind() == "PANIC" {
		fail("panic", o.Site, "render panicked: "+c12Clean(o.Panic)+" (expected: "+c12WantText(w)+")")
		return
	}
	// evaluation trace (wrapped flavour): never twice, never out of order; all of them when the call succeeds
	if call.wrap {
		seen := map[int]bool{}
		for idx, p := range rec.trace {
			if seen[p] {
				fail("wrong-output", "arg-evaluated-twice", fmt.Sprintf("argument %d was evaluated more than once; evaluation order %v", p, rec.trace))
				return
			}
			seen[p] = true
			if p != idx {
				fail("wrong-output", "arg-evaluation-order", fmt.Sprintf("arguments must be evaluated once, left to right; evaluation order was %v", rec.trace))
				return
			}
		}
	}
	if rec.calls > 1 {
		fail("wrong-output", "helper-invoked-more-than-once", fmt.Sprintf("the helper ran %d times for one call", rec.calls))
		return
	}
	if w.partial {
		if rec.calls == 0 {
			rep.Tag("partial:not-invoked")
			return
		}
		rep.Tag("partial:invoked")
		if len(rec.got) != len(w.args) {
			fail("wrong-output", c12DiffSite(sig, call, w, rec.got), "expected the helper, if it runs, to receive "+fmt.Sprint(w.args)+", it received "+fmt.Sprint(rec.got))
			return
		}
		for i := range rec.got {
			if w.args[i] == "*" || w.args[i] == rec.got[i] {
				continue
			}
			if i >= w.omitFrom {
				fail("wrong-output", "omitted-parameter-not-zero", fmt.Sprintf("parameter %d (%s) has no argument and is neither a trailing options map nor a helper context: nothing may be supplied for it (zero value %s, or no call); the helper received %s - all arguments: %v",
					i, kinds[i], w.args[i], rec.got[i], rec.got))
			} else {
				fail("wrong-output", "arg-value-changed", "expected the helper, if it runs, to receive "+fmt.Sprint(w.args)+", it received "+fmt.Sprint(rec.got))
			}
			return
		}
		if call.wrap && len(rec.trace) != len(call.args) {
			fail("wrong-output", "arg-not-evaluated", fmt.Sprintf("the helper ran but only arguments %v of %d were evaluated", rec.trace, len(call.args)))
			return
		}
		c12CheckResult(sig, o, fail)
		return
	}
	if w.err {
		rep.Tag("want:error:" + w.errWhy)
		id := map[string]string{"too-many-arguments": "too-many", "unassignable-argument": "bad-arg"}[w.errWhy]
		if rec.calls > 0 {
			fail("missing-error", "invoked-despite-"+id, "expected "+c12WantText(w)+"; the helper was invoked with "+fmt.Sprint(rec.got)+"; render result: "+c12ObsText(o))
			return
		}
		if o.Kind() == "OK" {
			fail("missing-error", "no-error-for-"+id, "expected "+c12WantText(w)+"; the render succeeded with output "+strconv.Quote(o.Out))
			return
		}
		if !strings.Contains(o.Err.Error(), c12Name) {
			fail("wrong-error", "error-does-not-name-call:"+id, "expected "+c12WantText(w)+"; the error does not contain the function name "+c12Name+": "+c12Clean(o.Err.Error()))
		}
		return
	}
	rep.Tag("want:invoked")
	// the call is valid: the helper must have run once with exactly these arguments
	hasNilVariadic, hasNilFixed := false, false
	for i := 0; i < len(call.args); i++ {
		if c12IsNilKind(call.args[i]) {
			if variadic && i >= len(kinds)-1 {
				hasNilVariadic = true
			} else {
				hasNilFixed = true
			}
		}
	}
	if rec.calls == 0 {
		site := "valid-call-not-invoked:" + c12TailClass(sig.tail)
		switch {
		case hasNilVariadic:
			site = "variadic-nil-not-zero"
		case hasNilFixed:
			site = "valid-call-not-invoked:nil-for-fixed-parameter"
		}
		fail("wrong-error", site, "expected "+c12WantText(w)+"; the helper was not invoked; render result: "+c12ObsText(o))
		return
	}
	if call.wrap && len(rec.trace) != len(call.args) {
		fail("wrong-output", "arg-not-evaluated", fmt.Sprintf("the helper ran but only arguments %v of %d were evaluated", rec.trace, len(call.args)))
		return
	}
	if strings.Join(rec.got, " | ") != strings.Join(w.args, " | ") {
		site := c12DiffSite(sig, call, w, rec.got)
		fail("wrong-output", site, "expected the helper to receive "+fmt.Sprint(w.args)+", it received "+fmt.Sprint(rec.got))
		return
	}
	c12CheckResult(sig, o, fail)
}

// c12CheckResult: the helper ran once with the right arguments: its first result is the call's value, a
// non-nil trailing error fails the render.
func c12CheckResult(sig c12Sig, o Obs, fail func(kind, site, what string)) {
	switch sig.res {
	case "T,err", "err":
		if o.Kind() != "ERR" {
			fail("missing-error", "result-error-ignored", "the helper returned a non-nil trailing error; the render must fail, got output "+strconv.Quote(o.Out))
		}
		return
	}
	if o.Kind() == "ERR" {
		fail("wrong-error", "valid-call-fails-after-invocation:"+sig.res, "the helper ran with the right arguments and returned no error, but the render failed: "+c12Clean(o.Err.Error()))
		return
	}
	wantOut := map[string]string{"none": "", "T": "RES", "N": "42", "T,nil": "RES", "nilerr": ""}[sig.res]
	if o.Out != wantOut {
		fail("wrong-output", "result-is-not-call-value:"+sig.res, "expected the call's value "+strconv.Quote(wantOut)+" as output, got "+strconv.Quote(o.Out))
	}
}

func c12TailClass(tail string) string {
	switch {
	case strings.HasPrefix(tail, "..."):
		return "variadic"
	case tail == "-":
		return "fixed"
	}
	return "auto-" + tail
}

var c12AddrRe = regexp.MustCompile(`0x[0-9a-f]{6,}`)

// c12Clean: a message of plush without pointer addresses (they differ from run to run), shortened
func c12Clean(s string) string {
	s = c12AddrRe.ReplaceAllString(s, "0x_")
	if len(s) > 300 {
		s = s[:300] + "…"
	}
	return s
}

func c12ObsText(o Obs) string {
	if o.Err != nil {
		return "error: " + c12Clean(o.Err.Error())
	}
	return "output " + strconv.Quote(o.Out)
}

func c12WantText(w c12Want) string {
	if w.err {
		s := "an error naming the call (" + w.errWhy
		if w.badPos >= 0 {
			s += " at position " + strconv.Itoa(w.badPos)
		}
		return s + ") and no invocation"
	}
	return "one invocation with " + fmt.Sprint(w.args)
}

// c12DiffSite names the root-cause family of a difference between expected and received arguments.
func c12DiffSite(sig c12Sig, call c12Call, w c12Want, got []string) string {
	kinds, variadic := sig.params()
	if len(got) != len(w.args) {
		if variadic {
			return "variadic-tail-length"
		}
		return "argument-count"
	}
	// same multiset, different order?
	cnt := map[string]int{}
	for _, x := range w.args {
		cnt[x]++
	}
	for _, x := range got {
		cnt[x]--
	}
	same := true
	for _, c := range cnt {
		same = same && c == 0
	}
	if same {
		return "arg-order"
	}
	for i := range got {
		if got[i] == w.args[i] {
			continue
		}
		if i >= w.autoFrom {
			k := kinds[i]
			switch k {
			case "ctxS":
				return "block-missing-for-struct-ctx"
			case "ctxI":
				return "block-missing-for-interface-ctx"
			}
			return "auto-options-map-wrong"
		}
		isNil := c12IsNilKind(call.args[i])
		isVar := variadic && i >= len(kinds)-1
		switch {
		case isNil && isVar:
			return "variadic-nil-not-zero"
		case isNil:
			return "fixed-nil-not-zero"
		case isVar:
			return "variadic-arg-value-changed"
		}
		return "arg-value-changed"
	}
	return "arg-value-changed"
}

// ---------------------------------------------------------------------------------------------
// enumeration

func c12Seqs(alphabet []string, maxLen int) [][]string {
	out := [][]string{{}}
	level := [][]string{{}}
	for l := 1; l <= maxLen; l++ {
		next := [][]string{}
		for _, p := range level {
			for _, a := range alphabet {
				q := append(append([]string{}, p...), a)
				next = append(next, q)
			}
		}
		out = append(out, next...)
		level = next
	}
	return out
}

func c12ArgSeqs(maxLen int) []string {
	al := []string{}
	for i := 0; i < len(c12ArgKinds); i++ {
		al = append(al, string(c12ArgKinds[i]))
	}
	out := []string{}
	for _, s := range c12Seqs(al, maxLen) {
		out = append(out, strings.Join(s, ""))
	}
	return out
}

func c12ParseCase(arg string) (c12Sig, c12Call, error) {
	head := arg
	if i := strings.Index(arg, " | "); i >= 0 {
		head = arg[:i]
	}
	var sig c12Sig
	var call c12Call
	haveSig := false
	for _, f := range strings.Fields(head) {
		switch {
		case strings.HasPrefix(f, "sig="):
			s, err := c12ParseSig(strings.TrimPrefix(f, "sig="))
			if err != nil {
				return sig, call, err
			}
			sig, haveSig = s, true
		case strings.HasPrefix(f, "call="):
			call.args = strings.TrimPrefix(f, "call=")
			if call.args == "-" {
				call.args = ""
			}
			for i := 0; i < len(call.args); i++ {
				if !strings.Contains(c12ArgKindsExt, string(call.args[i])) {
					return sig, call, fmt.Errorf("bad argument kind %q", call.args[i])
				}
			}
		case f == "blk=1":
			call.blk = true
		case f == "wrap=1":
			call.wrap = true
		}
	}
	if !haveSig {
		return sig, call, fmt.Errorf("no sig= field")
	}
	return sig, call, nil
}

func init() {
	oracles["C12"] = func(cfg Config) []*Report {
		rep := NewReport("C12", "C12", cfg)
		g := c12NewGen(rep)
		if strings.HasPrefix(cfg.Arg, "hist=") {
			c12hReplay(cfg.Arg, rep)
			return []*Report{rep}
		}
		if strings.HasPrefix(cfg.Arg, "mut=") {
			c12mReplay(cfg.Arg, rep)
			return []*Report{rep}
		}
		if strings.HasPrefix(cfg.Arg, "pos=") {
			c12eReplay(cfg.Arg, rep)
			return []*Report{rep}
		}
		if cfg.Arg != "" {
			sig, call, err := c12ParseCase(cfg.Arg)
			if err != nil {
				rep.Notes = append(rep.Notes, "cannot parse replay argument: "+err.Error())
				return []*Report{rep}
			}
			g.check(sig, call)
			return []*Report{rep}
		}
		fixedFull := cfg.N(2, 2) // all fixed-parameter lists up to this length over the 6 types
		maxArgs := cfg.N(3, 4)   // all argument lists up to this length over the 6 argument kinds
		fixed := c12Seqs(c12TypeNames, fixedFull)
		if cfg.Thorough() {
			// plus every 3-parameter list over int, string, interface{}
			for _, s := range c12Seqs([]string{"int", "string", "any"}, 3) {
				if len(s) == 3 {
					fixed = append(fixed, s)
				}
			}
		}
		argSeqs := c12ArgSeqs(maxArgs)
		rep.Rule = fmt.Sprintf("EXHAUSTIVE product, recording helpers built with reflect.MakeFunc. (A) binding: %d fixed-parameter lists (all lists of length 0..%d over int, string, bool, interface{}, map[string]interface{}, []string%s) "+
			"x 9 tails (none | options map | plush.HelperContext | hctx.HelperContext | map+struct ctx | map+interface ctx | ...string | ...interface{} | ...int), result (string), "+
			"x %d argument lists (all of length 0..%d over int literal, string literal, bool, nil, hash literal, []string variable; values distinct per position) x block yes/no "+
			"x 2 flavours (plain arguments; every argument wrapped in tr(pos, arg), a helper that logs its evaluation). (B) results: 7 result shapes (), (string), (int), (string, nil error), (string, error), (nil error), (error) "+
			"x 4 fixed lists x 9 tails x fitting calls x block x flavours.%s What is demanded is computed from the Go types and values (reflect AssignableTo / Zero), never from plush. "+
			"Every case reaches evalCallExpression's Go-function branch; about 9%% (quick) / 5%% (thorough) of the pairs are valid calls (tag want:invoked), about 1%% are left unchecked because the statement is silent, the rest must be rejected. non-trivial = signature or call has at least one parameter/argument; distinct by case text.",
			len(fixed), fixedFull, map[bool]string{true: "; plus all 27 lists of length 3 over int, string, interface{}", false: ""}[cfg.Thorough()],
			len(argSeqs), maxArgs, map[bool]string{true: " (C) random pairs from the larger space: fixed lists of length 3 over all 6 types x argument lists of length 0..5.", false: ""}[cfg.Thorough()])
		rep.Rule += c12hRule + c12eRule + c12fRule + c12gRuleText(cfg) + c12mRule
		rep.Exhaustive = true
		rep.Notes = append(rep.Notes, c12hNotes...)
		rep.Notes = append(rep.Notes, c12eNotes...)
		rep.Notes = append(rep.Notes, c12fNotes...)
		rep.Notes = append(rep.Notes, c12gNotes...)
		rep.Notes = append(rep.Notes, c12mNotes...)
		rep.Notes = append(rep.Notes,
			"Unchecked or only partially checked (statement silent about the outcome), tagged unchecked:* / partial:*: fewer arguments than fixed parameters when the missing parameter is not a trailing options map / helper context (non-variadic: more missing than the auto-suppliable suffix; variadic: fewer arguments than fixed parameters). Panics there are C04's business.",
			"An options map is recognised as map[string]interface{} in last position, or in second-to-last position before a helper context. nil / empty maps and slices are not distinguished (the statement says 'zero value' for nil and 'supplied' for the options map).",
			"'names the call' is checked as: the error text contains the function's name as written in the template.",
			"On an error outcome the evaluation trace only has to be duplicate-free and in order (a prefix); on success every argument must have been evaluated exactly once, left to right.",
			"A block on a call whose function takes no helper context is ignored by the oracle (statement silent); the binding of the arguments is still checked.")

		// (A) binding
		for _, as := range argSeqs {
			for _, blk := range []bool{false, true} {
				for _, wrap := range []bool{false, true} {
					if wrap && as == "" {
						continue
					}
					call := c12Call{args: as, blk: blk, wrap: wrap}
					for _, f := range fixed {
						for _, tail := range c12Tails {
							g.check(c12Sig{fixed: f, tail: tail, res: "T"}, call)
						}
					}
				}
			}
		}
		// (B) result shapes
		fixedB := [][]string{{}, {"int"}, {"string", "any"}, {"any", "map"}}
		for _, f := range fixedB {
			for _, tail := range c12Tails {
				for _, res := range c12ResShapes {
					sig := c12Sig{fixed: f, tail: tail, res: res}
					base := ""
					for _, k := range f {
						base += map[string]string{"int": "i", "string": "s", "any": "b", "map": "h"}[k]
					}
					variants := []string{base}
					switch tail {
					case "opts", "opts+ctxS", "opts+ctxI":
						variants = append(variants, base+"h", base+"n")
					case "...string":
						variants = append(variants, base+"s", base+"ss")
					case "...any":
						variants = append(variants, base+"i", base+"sh")
					case "...int":
						variants = append(variants, base+"i", base+"ii")
					}
					variants = append(variants, base+"l") // one more argument than the base: a []string
					for _, as := range variants {
						for _, blk := range []bool{false, true} {
							for _, wrap := range []bool{false, true} {
								if wrap && as == "" {
									continue
								}
								g.check(sig, c12Call{args: as, blk: blk, wrap: wrap})
							}
						}
					}
				}
			}
		}
		// (F) parameters without an argument; more parameter types (oracle_c12_omit.go)
		c12fStage(cfg, g)
		// (G) argument values of every Go kind: typed nil pointers, structs, named types ... (oracle_c12_kinds.go)
		c12gStage(cfg, g)
		// (H) histories of calls whose helpers write into what they receive (oracle_c12_mut.go)
		c12mStage(cfg, rep)
		// (D) call histories and nested calls (oracle_c12_hist.go)
		c12hStage(cfg, rep)
		// (E) result handling in every position of a program (oracle_c12_pos.go)
		c12eStage(cfg, rep)
		// (C) random pairs from the larger space
		if cfg.Thorough() {
			r := NewRng(cfg.Seed).Fork(12)
			for i := 0; i < 400000 && !rep.Full(); i++ {
				f := []string{Pick(r, c12TypeNames), Pick(r, c12TypeNames), Pick(r, c12TypeNames)}
				n := r.Range(0, 5)
				as := ""
				for j := 0; j < n; j++ {
					as += string(c12ArgKinds[r.Intn(len(c12ArgKinds))])
				}
				res := "T"
				if r.Chance(30) {
					res = Pick(r, c12ResShapes)
				}
				g.check(c12Sig{fixed: f, tail: Pick(r, c12Tails), res: res}, c12Call{args: as, blk: r.Bool(), wrap: r.Bool() && as != ""})
			}
		}
		return []*Report{rep}
	}
}
