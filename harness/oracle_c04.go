package main

import (
	"fmt"
	"regexp"
	"sort"
	"strconv"
	"strings"
	"sync"
	"time"

	plush "github.com/gobuffalo/plush/v5"
)

// C04 oracle (model-free): executing a template that parses, against ordinary Go data, returns
// (output, error) — it never panics and never hangs.
//
// Streams (one report each):
//   C04-infix    (16 operator spellings + prefix ! and -) x operand x operand        exhaustive
//   C04-index    c[i] reads, c[i].member reads, c[i] = v writes                      exhaustive
//   C04-member   receiver x member x access form                                     exhaustive
//   C04-iter     for-loops over every pool value, 6 loop shapes                      exhaustive
//   C04-call     Go callee signature x argument list (len 0..3 [+4]), user fn arity  exhaustive
//   C04-builtin  every key of plush.Helpers x argument kinds to arity 3              exhaustive
//   C04-rand     random well-formed programs with leaves from the pool               random
//   C04-shapes   value shapes inside a kind (multi-byte / long / invalid strings,   exhaustive
//                boundary ints, NaN, every sequence length, NaN-keyed maps) x helpers,
//                option hashes, index, operators, iteration, calls (oracle_c04_shapes.go)
//   C04-iface    values implementing the interfaces the engine / helpers dispatch on      exhaustive
//                (Stringer, HTMLer, Interface(), Iterator, Pathable, Paramable, error, Marshaler):
//                value, pointer, typed nil pointer, carriers x helpers, operators, output,
//                iteration, index, members, calls (oracle_c04_iface.go)
//   C04-mutiter  for-loops whose body changes the collection being iterated (entries deleted,  exhaustive
//                added, overwritten, variable re-bound; through aliases, user functions, nested
//                constructs) x iterable kind x position in the body (oracle_c04_mutiter.go)
//
//   C04-sig      callee signatures built by reflection: ~125 parameter types (arrays, pointers to     exhaustive
//                arrays, named types, every width, interfaces, ...) x callee form (fixed, fixed part of
//                a variadic, variadic tail, second position, missing) x ~225 argument values (slices and
//                arrays of every length, typed nil pointers, named values, literals); methods and funcs
//                reached by member / index; result types (oracle_c04_sig.go)
//
// A case is the template text (Go-quoted); the environment is c04EnvFor(template text): c04Env(), plus
// the shape variables sh* iff the text mentions one, plus the interface variables im* iff the text mentions one,
// plus the multi-entry maps mu* iff the text mentions one, plus each signature name sg* the text mentions.

const c04Timeout = 3 * time.Second

var (
	c04reNum  = regexp.MustCompile(`[0-9]+`)
	c04reType = regexp.MustCompile(`(type|Type|kind|Kind) [^ ,;:)]+`)
	c04reMain = regexp.MustCompile(`(main|plush|template|time|errors)\.[A-Za-z0-9_.*\[\]{}]+`)
	c04reCut  = regexp.MustCompile(`(unhashable type|interface conversion:|value of type) .*`)
)

// c04PanicClass normalises a panic message into a root-cause class (digits, type names removed).
func c04PanicClass(msg string) string {
	s := msg
	if i := strings.Index(s, "\n"); i >= 0 {
		s = s[:i]
	}
	s = c04reCut.ReplaceAllString(s, "$1 ...")
	s = c04reMain.ReplaceAllString(s, "T")
	s = c04reType.ReplaceAllString(s, "$1 T")
	s = c04reNum.ReplaceAllString(s, "N")
	if len(s) > 110 {
		s = s[:110]
	}
	return s
}

type c04Runner struct {
	rep      *Report
	noted    map[string]bool
	panicFam map[string]int
	retTag   bool          // count OK and ERR under one tag (streams where which of the two happens depends on Go's map order)
	hold     func(Failure) // when set, panic failures are handed over instead of being recorded at once (C04-mutiter re-checks them)
}

func c04NewRunner(stream string, cfg Config) *c04Runner {
	return &c04Runner{rep: NewReport("C04", stream, cfg), noted: map[string]bool{}, panicFam: map[string]int{}}
}

// check renders one template against a fresh environment and applies the oracle.
func (r *c04Runner) check(tmpl string, tags ...string) {
	rep := r.rep
	if rep.Full() {
		return
	}
	parsed := false
	o := safeCall(c04Timeout, func() (string, error) {
		t, err := plush.Parse(tmpl)
		if err != nil {
			return "", err
		}
		parsed = true
		return t.Exec(plush.NewContextWith(c04EnvFor(tmpl)))
	})
	caseText := strconv.Quote(tmpl)
	kind := o.Kind()
	if kind == "HANG" {
		parsed = true
	}
	if kind == "PANIC" && !parsed {
		// Parse itself panicked: that is C03's subject, but it is still a panic of Render.
		parsed = true
	}
	if !parsed {
		rep.Count(caseText, false)
		rep.Tag("PARSE-ERR")
		return
	}
	rep.Count(caseText, true)
	tagKind := kind
	if r.retTag && (kind == "OK" || kind == "ERR") {
		tagKind = "RETURNED"
	}
	rep.Tag(tagKind)
	for _, t := range tags {
		rep.Tag(t + "/" + tagKind)
	}
	switch kind {
	case "PANIC":
		cls := c04PanicClass(o.Panic)
		fam := o.Site + " :: " + cls
		r.panicFam[fam]++
		if !r.noted[fam] && len(r.noted) < 40 {
			r.noted[fam] = true
			rep.Notes = append(rep.Notes, "panic root cause ["+fam+"] first seen at "+caseText)
		}
		f := Failure{Case: caseText, Kind: "panic", Site: o.Site,
			What:  "template parses and the data is ordinary Go data, so Render must return (output, error); it panicked: " + o.Panic,
			Extra: cls}
		if r.hold != nil {
			r.hold(f)
		} else {
			rep.Fail(f)
		}
	case "HANG":
		rep.Fail(Failure{Case: caseText, Kind: "hang", Site: "evaluator",
			What: fmt.Sprintf("Render did not return within %v", c04Timeout)})
	}
}

func (r *c04Runner) finish() *Report {
	fams := make([]string, 0, len(r.panicFam))
	for f := range r.panicFam {
		fams = append(fams, f)
	}
	sort.Strings(fams)
	for _, f := range fams {
		r.rep.Dist["panic-family: "+f] = r.panicFam[f]
	}
	return r.rep
}

// The 13 binary operators the parser registers, plus the three operator spellings the lexer knows
// but the parser may reject ("~" lexes as MATCHES, "%" and "=" have no infix rule). Templates that do
// not parse are outside the property; they are counted as PARSE-ERR and not as cases.
var c04BinOps = []string{"+", "-", "*", "/", "<", ">", "<=", ">=", "==", "!=", "&&", "||", "~=", "~", "%", "="}

func c04Infix(cfg Config) *Report {
	r := c04NewRunner("C04-infix", cfg)
	r.rep.Exhaustive = true
	pool := c04Pool
	r.rep.Rule = fmt.Sprintf("<%%= L op R %%> for all 16 operator spellings x %d x %d pool operands (every value kind incl. nil, unknown identifier, typed nil pointers, literals), plus !X, -X, !!X, chained results, and every operand written to the output on its own (output tag, [X], return X, inside a block, via let); every case that parses reaches evalInfixExpression/evalPrefixExpression; distinct by template text", len(pool), len(pool))
	for _, op := range c04BinOps {
		for _, l := range pool {
			for _, rr := range pool {
				r.check("<%= "+l.Expr+" "+op+" "+rr.Expr+" %>", "op "+op)
			}
		}
	}
	// every value written to the output on its own (top level, inside an array, via return, inside a block)
	for _, x := range pool {
		r.check("<%= "+x.Expr+" %>", "output")
		r.check("<%= ["+x.Expr+"] %>", "output")
		r.check("<% return "+x.Expr+" %>", "output")
		r.check("<%= if (true) { %><%= "+x.Expr+" %><% } %>", "output")
		r.check("<% let z = "+x.Expr+" %><%= z %>", "output")
	}
	for _, x := range pool {
		r.check("<%= !"+x.Expr+" %>", "op prefix!")
		r.check("<%= -"+x.Expr+" %>", "op prefix-")
		r.check("<%= !!"+x.Expr+" %>", "op prefix!")
		r.check("<% if (!"+x.Expr+") { %>t<% } else { %>e<% } %>", "op prefix!")
	}
	// results of operators fed back into operators and into output (reflect.Value results of slice +)
	for _, l := range c04RepPool() {
		for _, rr := range c04RepPool() {
			r.check("<% let z = "+l.Expr+" + "+rr.Expr+" %><%= z + z %><%= z == z %>", "op chained")
		}
	}
	return r.finish()
}

var c04Members = []string{"Name", "Age", "Ptr", "Self", "Tags", "M", "Fn", "IF", "Inner", "hidden", "Missing",
	"Hello", "PHello", "Add", "Err", "Many", "ID", "Next", "Len", "String"}

func c04Index(cfg Config) *Report {
	r := c04NewRunner("C04-index", cfg)
	r.rep.Exhaustive = true
	pool := c04Pool
	wc, wi, wv := pool, pool, pool
	if !cfg.Thorough() {
		// quick tier: the write cube runs over (all containers + the representative non-containers) x all x representative
		wc = c04Sel(func(e c04Ent) bool { return e.Cont || e.Rep })
		wv = c04RepPool()
	}
	r.rep.Rule = fmt.Sprintf("reads <%%= C[I] %%> over %d x %d pool values (every kind as container and as index/key: negative, zero, too large, nil, unknown, wrong-typed key, float, string, bool, containers, funcs); reads with a member <%%= C[I].M %%> / C[I].M(); writes <%% C[I] = V %%> over %d x %d x %d; all parsing cases reach evalIndexExpression; distinct by template text", len(pool), len(pool), len(wc), len(wi), len(wv))
	for _, c := range pool {
		for _, i := range pool {
			r.check("<%= "+c.Expr+"["+i.Expr+"] %>", "read")
		}
	}
	for _, c := range c04Sel(func(e c04Ent) bool { return e.Cont || e.Rep }) {
		for _, i := range c04RepPool() {
			for _, m := range []string{"Name", "Missing", "Hello()", "Ptr.Name", "Tags[0]"} {
				r.check("<%= "+c.Expr+"["+i.Expr+"]."+m+" %>", "read-member")
			}
			r.check("<%= "+c.Expr+"["+i.Expr+"]["+i.Expr+"] %>", "read-nested")
		}
	}
	for _, c := range wc {
		for _, i := range wi {
			for _, v := range wv {
				r.check("<% "+c.Expr+"["+i.Expr+"] = "+v.Expr+" %>", "write")
			}
		}
	}
	// write then read back / iterate (non-cyclic values only)
	for _, c := range c04Sel(func(e c04Ent) bool { return e.Cont }) {
		for _, i := range c04RepPool() {
			for _, v := range c04Sel(func(e c04Ent) bool { return e.Scal && e.Rep }) {
				r.check("<% "+c.Expr+"["+i.Expr+"] = "+v.Expr+" %><%= "+c.Expr+"["+i.Expr+"] %><%= for (k, x) in "+c.Expr+" { %><%= x %><% } %>", "write-read")
			}
		}
	}
	return r.finish()
}

func c04Member(cfg Config) *Report {
	r := c04NewRunner("C04-member", cfg)
	r.rep.Exhaustive = true
	recv := append([]c04Ent{}, c04Pool...)
	recv = append(recv,
		c04Ent{Expr: "vStruct.Self", Kind: "field-*struct"}, c04Ent{Expr: "vStruct.Ptr", Kind: "field-nil-*struct"},
		c04Ent{Expr: "vStruct.Inner", Kind: "field-struct"}, c04Ent{Expr: "vStructPtr.Self.Self", Kind: "field-nil-deep"},
		c04Ent{Expr: "vStruct.M", Kind: "field-map"}, c04Ent{Expr: "vStruct.IF", Kind: "field-nil-iface"})
	forms := []string{"<%= R.M %>", "<%= R.M() %>", "<%= R.M(1) %>", "<%= R.M(1, 2) %>", "<%= R.M(nil) %>", "<%= R.M.Name %>",
		"<%= R.M[0] %>", `<%= R.M["k"] %>`, "<% R.M = 1 %>", "<%= R.M.Hello() %>", "<% if (R.M) { %>t<% } %>",
		"<%= R.M == nil %>", "<%= R.M() { %>b<% } %>"}
	r.rep.Rule = fmt.Sprintf("%d receivers (every pool value incl. nil, unknown identifier, nil *struct, **struct, plus struct fields as receivers) x %d members (exported/unexported/nil-pointer/func/interface fields, value and pointer methods, variadic and erroring methods, missing) x %d access forms (field read, call with 0/1/2/nil args, chained field, chained index, assignment, condition, block); cases whose receiver expression cannot take a dot (literals) do not parse as member access and are counted separately; distinct by template text", len(recv), len(c04Members), len(forms))
	for _, rc := range recv {
		for _, m := range c04Members {
			for _, f := range forms {
				t := strings.Replace(strings.Replace(f, "R", rc.Expr, 1), "M", m, 1)
				r.check(t, "member "+m)
			}
		}
	}
	return r.finish()
}

func c04Iter(cfg Config) *Report {
	r := c04NewRunner("C04-iter", cfg)
	r.rep.Exhaustive = true
	forms := []string{
		"<%= for (k, v) in X { %><%= k %>=<%= v %>;<% } %>",
		"<%= for (v) in X { %><%= v %><% } %>",
		"<% for (k, v) in X { %>x<% } %>",
		"<%= for (k, v) in X { %><% if (k == 1) { break } %><%= v %><% } %>",
		"<%= for (k, v) in X { %><% if (v == 1) { continue } %><%= k %><% } %>",
		"<%= for (k, v) in X { %><%= for (a, b) in v { %><%= b %><% } %><% } %>",
		"<%= for (k, v) in X { return v } %>",
		"<% for (k, v) in X { %><% X[k] = v %><% } %>",
	}
	r.rep.Rule = fmt.Sprintf("for-loops over every pool value (%d iterables: all kinds incl. nil, typed nil pointers, nil map/slice, pointers to containers, funcs, Iterator, struct) in %d loop shapes (key+value, value only, silent, break, continue, nested over the element, return, write-back); all reach evalForExpression; distinct by template text", len(c04Pool), len(forms))
	for _, x := range c04Pool {
		for _, f := range forms {
			r.check(strings.Replace(f, "X", x.Expr, -1), "iter "+x.Kind)
		}
	}
	// iterating the results of built-in iterator helpers with every small argument
	for _, a := range c04RepPool() {
		for _, b := range c04RepPool() {
			for _, h := range []string{"range(A, B)", "between(A, B)", "groupBy(A, B)", "until(A)"} {
				t := "<%= for (v) in " + strings.Replace(strings.Replace(h, "A", a.Expr, 1), "B", b.Expr, 1) + " { %><%= v %><% } %>"
				r.check(t, "iter-helper")
			}
		}
	}
	return r.finish()
}

// c04ArgPool: argument expressions of the call matrices (one per kind that matters to binding).
func c04ArgPool(cfg Config) []string {
	q := []string{"vInt", "vStr", "nil", "undef", "vF64", "vBool", "vSliceInt", "vMapStrAny", "vStruct", "vStructPtr", "vNilPtr", "vFn1"}
	if cfg.Thorough() {
		q = append(q, "vInt64", "vUint8", `{"a": 1}`, "[1, 2]", "vNilMap", "vIter", "vHTML", "fn(p) { return p }", "vIntPtr", "vNilFunc")
	}
	return q
}

// c04ArgLists enumerates all argument lists of length 0..n over pool.
func c04ArgLists(pool []string, n int, emit func(args []string)) {
	var rec func(cur []string, k int)
	rec = func(cur []string, k int) {
		if len(cur) == k {
			emit(cur)
			return
		}
		for _, a := range pool {
			rec(append(cur, a), k)
		}
	}
	for k := 0; k <= n; k++ {
		rec(nil, k)
	}
}

func c04Call(cfg Config) *Report {
	r := c04NewRunner("C04-call", cfg)
	r.rep.Exhaustive = true
	args := c04ArgPool(cfg)
	r.rep.Rule = fmt.Sprintf("%d Go callee signatures (no params, fixed, variadic, trailing map / HelperContext / both, pointer, struct, slice, interface, func params, no result, error result) x all argument lists of length 0..3 over %d argument kinds (too few, too many, wrong type, nil, unknown identifier), each also with a block for length<=1; 4-argument lists for the 4-ary callee; every pool value used as callee; user functions fn with 0..3 parameters x argument lists 0..3 (+ calls through let/assign/array/hash); chained member access on call results; distinct by template text", len(c04Callees), len(args))
	for _, c := range c04Callees {
		c04ArgLists(args, 3, func(a []string) {
			call := c.Name + "(" + strings.Join(a, ", ") + ")"
			r.check("<%= "+call+" %>", "go "+c.Name)
			if len(a) <= 1 {
				r.check("<%= "+call+" { %>blk<%= vInt %><% } %>", "go-block "+c.Name)
			}
		})
	}
	small := []string{"vInt", "vStr", "nil", "undef"}
	c04ArgLists(small, 5, func(a []string) {
		if len(a) >= 4 {
			r.check("<%= gfIII("+strings.Join(a, ", ")+") %>", "go gfIII")
			r.check("<%= gfV("+strings.Join(a, ", ")+") %>", "go gfV")
		}
	})
	// every pool value as the callee
	for _, c := range c04Pool {
		for _, a := range []string{"", "1", "nil", "1, 2", "undef"} {
			r.check("<%= "+c.Expr+"("+a+") %>", "callee-kind")
			r.check("<% let q = "+c.Expr+" %><%= q("+a+") %>", "callee-kind")
		}
	}
	// methods as callees with argument lists
	for _, recv := range []string{"vStruct", "vStructPtr", "vNilPtr", "vPtrPtr", "vSliceStruct[0]"} {
		for _, m := range []string{"Hello", "PHello", "Add", "Err", "Many", "Fn"} {
			c04ArgLists(args, 2, func(a []string) {
				if strings.HasSuffix(recv, "]") {
					r.check("<%= "+recv+"."+m+"("+strings.Join(a, ", ")+") %>", "method "+m)
					return
				}
				r.check("<%= "+recv+"."+m+"("+strings.Join(a, ", ")+") %>", "method "+m)
			})
		}
	}
	// user-defined functions: parameter binding
	params := []string{"", "a", "a, b", "a, b, c"}
	bodies := []string{"return 1", "return a", "return a + b", "return [a, b, c]", "a = 1", "let z = c"}
	for _, p := range params {
		for _, b := range bodies {
			def := "<% let f = fn(" + p + ") { " + b + " } %>"
			c04ArgLists(args, 3, func(a []string) {
				if len(a) == 3 && !cfg.Thorough() && (a[0] != "vInt" && a[0] != "nil") {
					return // quick: length-3 lists only with two leading kinds (arity faults depend on the count, not the kinds)
				}
				r.check(def+"<%= f("+strings.Join(a, ", ")+") %>", "userfn "+strconv.Itoa(len(strings.Fields(p)))+"p/"+strconv.Itoa(len(a))+"a")
			})
		}
	}
	for _, a := range []string{"", "1", "1, 2", "1, 2, 3"} {
		r.check("<%= fn(x, y) { return x }("+a+") %>", "userfn-literal")
		r.check("<% let fs = [fn(x, y) { return y }] %><%= fs[0]("+a+") %>", "userfn-indexed")
		r.check(`<% let h = {"f": fn(x, y) { return y }} %><%= h["f"](`+a+`) %>`, "userfn-indexed")
		r.check("<% let f = fn(x, y) { return y } %><% let g = fn(k) { return f(k) } %><%= g("+a+") %>", "userfn-nested")
		r.check("<% let f = fn(x, y) { return y } %><%= f("+a+") { %>b<% } %>", "userfn-block")
		r.check("<% let f = fn(x, y) { return y } %><%= gfA(f("+a+")) %>", "userfn-as-arg")
		r.check("<% let f = fn(x, y) { return y } %><%= for (i) in [1, 2] { %><%= f("+a+") %><% } %>", "userfn-in-loop")
	}
	// chained access on call results
	for _, c := range []string{"gfRetS", "gfRetP", "gfRetNilP", "gfRetNil", "gfRetM", "gfN", "gf0", "gfI", "gfE", "vStruct.Hello", "undef", "vInt"} {
		for _, tail := range []string{"Name", "Missing", "Hello()", "PHello()", "Self.Name", "Ptr.Name", "Tags[0]", "Tags[9]", "Add(1)", "Name.X"} {
			for _, a := range []string{"", "1"} {
				r.check("<%= "+c+"("+a+")."+tail+" %>", "chain")
			}
		}
	}
	return r.finish()
}

// c04HashArgs: option hashes that built-in helpers take apart with type assertions.
var c04HashArgs = []string{`{"size": "x"}`, `{"size": 2.5}`, `{"size": 2, "trail": 5}`, `{"size": 0 - 1}`, `{"size": 1, "trail": ""}`,
	`{"size": 2}`, `{"trail": nil, "size": nil}`, `{"layout": "lay"}`, `{"layout": 3}`, `{"layout": "nope"}`, `{"yield": 1}`}

func c04Builtin(cfg Config) *Report {
	r := c04NewRunner("C04-builtin", cfg)
	r.rep.Exhaustive = true
	names := []string{}
	for k := range plush.Helpers.All() {
		names = append(names, k)
	}
	sort.Strings(names)
	full := []string{}
	for _, e := range c04Pool {
		full = append(full, e.Expr)
	}
	a1 := append(append([]string{}, full...), c04HashArgs...)
	a2 := a1
	a3 := c04ArgPool(cfg)
	if !cfg.Thorough() {
		a2 = []string{}
		for _, e := range c04RepPool() {
			a2 = append(a2, e.Expr)
		}
		a2 = append(a2, c04HashArgs...)
	}
	r.rep.Rule = fmt.Sprintf("every helper registered in plush.Helpers (%d names: len truncate groupBy range between until raw htmlEscape jsEscape toJSON json contentFor contentOf partial pathFor debug inspect env envOr and the inflections) x argument lists: arity 0; arity 1 over %d values; arity 2 over %d x %d; arity 3 over %d^3; arity<=1 also with a block; plus contentFor/contentOf and partial combinations; all reach reflect.Call of the helper unless binding rejects the arguments; distinct by template text", len(names), len(a1), len(a2), len(a2), len(a3))
	for _, h := range names {
		tag := "helper " + h
		r.check("<%= "+h+"() %>", tag)
		r.check("<%= "+h+"() { %>b<%= vInt %><% } %>", tag)
		for _, a := range a1 {
			r.check("<%= "+h+"("+a+") %>", tag)
			r.check("<%= "+h+"("+a+") { %>b<%= vInt %><% } %>", tag)
		}
		for _, a := range a2 {
			for _, b := range a2 {
				r.check("<%= "+h+"("+a+", "+b+") %>", tag)
			}
		}
		for _, a := range a3 {
			for _, b := range a3 {
				for _, c := range a3 {
					r.check("<%= "+h+"("+a+", "+b+", "+c+") %>", tag)
				}
			}
		}
		r.check("<%= "+h+"(1, 2, 3, 4) %>", tag)
	}
	// contentFor / contentOf combinations
	small := append(c04ArgPool(cfg), c04HashArgs[0], c04HashArgs[7])
	for _, a := range small {
		for _, b := range small {
			for _, c := range small {
				r.check("<% contentFor("+a+") { %>cf<%= vInt %><% } %><%= contentOf("+b+", "+c+") %>", "contentFor/Of")
			}
			r.check("<% contentFor("+a+") { %>cf<%= undef %><% } %><%= contentOf("+b+") %>", "contentFor/Of")
			r.check("<%= contentOf("+a+", "+b+") { %>dflt<%= vInt %><% } %>", "contentFor/Of")
			r.check("<% contentFor("+a+", "+b+") { %>x<% } %>", "contentFor/Of")
		}
	}
	// partial: names x data
	for _, n := range []string{`"p1"`, `"lay"`, `"bad.js"`, `"nope"`, `""`, "vStr", "vInt", "nil", "undef"} {
		for _, d := range a1 {
			r.check("<%= partial("+n+", "+d+") %>", "partial")
		}
		r.check("<% let partialFeeder = 1 %><%= partial("+n+") %>", "partial")
		r.check("<% let partialFeeder = gf0 %><%= partial("+n+") %>", "partial")
		r.check("<% let contentType = \"application/javascript\" %><%= partial("+n+") %>", "partial")
		r.check("<% let contentType = 3 %><%= partial("+n+", {\"layout\": \"lay\"}) %>", "partial")
	}
	return r.finish()
}

func init() {
	oracles["C04"] = func(cfg Config) []*Report {
		if cfg.Arg != "" {
			r := c04NewRunner("C04", cfg)
			r.rep.Rule = "replay of one recorded case"
			s, err := strconv.Unquote(cfg.Arg)
			if err != nil {
				s = cfg.Arg
			}
			r.check(s)
			return []*Report{r.finish()}
		}
		note := "A panic is attributed to plush because no helper, method or iterator of the C04 environment can panic (nil receivers/maps/funcs handled). Not generated on purpose: self-referential data (xs[0] = xs then printing xs) and recursive user functions / partials — they exhaust the Go stack, which kills the process and cannot be observed in-process; loops over huge ranges (C19's subject)."
		// the streams are independent (own report, own random state): run them side by side
		streams := []func(Config) *Report{c04Infix, c04Index, c04Member, c04Iter, c04Call, c04Builtin, c04Rand, c04Shapes, c04Iface, c04MutIter, c04Sig}
		reps := make([]*Report, len(streams))
		var wg sync.WaitGroup
		for i := range streams {
			wg.Add(1)
			go func(i int) {
				defer wg.Done()
				reps[i] = streams[i](cfg)
			}(i)
		}
		wg.Wait()
		reps[0].Notes = append(reps[0].Notes, note)
		return reps
	}
}
