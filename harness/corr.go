package main

import (
	"bufio"
	"encoding/hex"
	"fmt"
	"os"
	"reflect"
	"regexp"
	"strconv"
	"strings"
	"time"

	"github.com/gobuffalo/plush/v5/lexer"
	"github.com/gobuffalo/plush/v5/parser"
)

// ---- implementation observations for the line protocol (DESIGN.md §4.2, Appendix C) ----

func unhx(s string) (string, error) {
	if s == "-" {
		return "", nil
	}
	b, err := hex.DecodeString(s)
	return string(b), err
}

func implLex(src string) string {
	o := safeCall(2*time.Second, func() (string, error) {
		l := lexer.New(src)
		var parts []string
		n := len(src) + 2
		for i := 0; i < n; i++ {
			t := l.NextToken()
			parts = append(parts, fmt.Sprintf("%s:%s:%d", tokName(string(t.Type)), hx(t.Literal), t.LineNumber))
		}
		// strip trailing EOF repetitions down to one
		for len(parts) >= 2 && strings.HasPrefix(parts[len(parts)-1], "EOF:") && parts[len(parts)-1] == parts[len(parts)-2] {
			parts = parts[:len(parts)-1]
		}
		return strings.Join(parts, " "), nil
	})
	switch o.Kind() {
	case "OK":
		return "OK " + o.Out
	default:
		return o.Kind()
	}
}

// token type string -> Go constant name (what the Lean TT constructors are called)
var tokNames = map[string]string{
	"ILLEGAL": "ILLEGAL", "EOF": "EOF", "IDENT": "IDENT", "INT": "INT", "FLOAT": "FLOAT", "STRING": "STRING",
	"B_STRING": "B_STRING", "HTML": "HTML", "DOT": "DOT", "=": "ASSIGN", "+": "PLUS", "-": "MINUS", "!": "BANG",
	"*": "ASTERISK", "/": "SLASH", "%": "PERCENT", "<": "LT", "<=": "LTEQ", ">": "GT", ">=": "GTEQ", "==": "EQ",
	"!=": "NOT_EQ", "&&": "AND", "||": "OR", "~=": "MATCHES", "<%": "S_START", "<%#": "C_START", "<%=": "E_START",
	"%>": "E_END", ",": "COMMA", ";": "SEMICOLON", ":": "COLON", "(": "LPAREN", ")": "RPAREN", "{": "LBRACE",
	"}": "RBRACE", "[": "LBRACKET", "]": "RBRACKET", "FUNCTION": "FUNCTION", "LET": "LET", "TRUE": "TRUE",
	"FALSE": "FALSE", "IF": "IF", "ELSE": "ELSE", "RETURN": "RETURN", "FOR": "FOR", "IN": "IN",
	"CONTINUE": "CONTINUE", "BREAK": "BREAK",
}

func tokName(t string) string {
	if n, ok := tokNames[t]; ok {
		return n
	}
	return "?" + t
}

var linePrefix = regexp.MustCompile(`^line (\d+): `)

// parse errors: the error value is parser.errSlice ([]string); read it by reflection (no hook needed)
func parseErrLines(err error) (int, string) {
	rv := reflect.ValueOf(err)
	if rv.Kind() != reflect.Slice {
		return 1, "?"
	}
	var ls []string
	for i := 0; i < rv.Len(); i++ {
		m := rv.Index(i).String()
		if mm := linePrefix.FindStringSubmatch(m); mm != nil {
			ls = append(ls, mm[1])
		} else {
			ls = append(ls, "-")
		}
	}
	return rv.Len(), strings.Join(ls, ",")
}

func implParse(src string) string {
	var dump string
	o := safeCall(2*time.Second, func() (string, error) {
		p, err := parser.Parse(src)
		if err != nil {
			return "", err
		}
		dump = dumpProgram(p)
		return "", nil
	})
	switch o.Kind() {
	case "OK":
		return "OK " + dump
	case "ERR":
		n, ls := parseErrLines(o.Err)
		return fmt.Sprintf("ERR n=%d lines=%s", n, ls)
	default:
		return o.Kind()
	}
}

func observeLine(line string) string {
	f := strings.Fields(line)
	if len(f) < 2 {
		return "BADLINE"
	}
	switch f[0] {
	case "lex":
		s, err := unhx(f[1])
		if err != nil {
			return "BADLINE"
		}
		return implLex(s)
	case "parse":
		s, err := unhx(f[1])
		if err != nil {
			return "BADLINE"
		}
		return implParse(s)
	default:
		if fn, ok := observers[f[0]]; ok {
			return fn(f[1:])
		}
	}
	return "BADLINE"
}

// other files register further protocol ops here
var observers = map[string]func([]string) string{}

func observeStdin() {
	sc := bufio.NewScanner(os.Stdin)
	sc.Buffer(make([]byte, 1<<20), 1<<26)
	w := bufio.NewWriter(os.Stdout)
	defer w.Flush()
	for sc.Scan() {
		fmt.Fprintln(w, observeLine(sc.Text()))
		w.Flush()
	}
}

// corr streams: each emits "<case line>\t<implementation observation>"
type corrGen func(cfg Config, emit func(caseLine string))

var corrStreams = map[string]corrGen{}

func runCorr(stream string, cfg Config) {
	g, ok := corrStreams[stream]
	if !ok {
		fmt.Fprintln(os.Stderr, "no corr stream", stream)
		os.Exit(2)
	}
	w := bufio.NewWriterSize(os.Stdout, 1<<20)
	defer w.Flush()
	n := 0
	g(cfg, func(c string) {
		if tooManyHangs() {
			return
		}
		// the case line is flushed before the implementation runs, so that a fatal runtime error
		// (stack exhaustion, concurrent map write) can be attributed to the case that caused it
		fmt.Fprintf(w, "%s\t", c)
		w.Flush()
		fmt.Fprintf(w, "%s\n", observeLine(c))
		n++
	})
	fmt.Fprintln(os.Stderr, "corr", stream, "cases", strconv.Itoa(n))
}
