module verifharness

go 1.21

require github.com/gobuffalo/plush/v5 v5.0.0

require github.com/gobuffalo/flect v1.0.2 // indirect

replace github.com/gobuffalo/plush/v5 => /repo
