package main

// C07 oracle, operand spellings: the statement quantifies over all chains, so the conditions of a chain
// need not be distinct calls of distinct helpers. Here a condition's operand can be spelled like (or almost
// like) the other conditions of its chain: the same stateful call, the same callee with another argument,
// another field / element / key of what the same call returns, another method of the same receiver,
// another field / element of the same context variable. The expectation stays the statement's: conditions
// are evaluated in order, each at most once per evaluation of the chain, none after the first truthy one.

import (
	"fmt"
	"strings"
)

const c07MaxOpsN = 8

type c07Rec struct{ F0, F1, F2, F3, F4, F5, F6, F7 interface{} }

func (r *c07Rec) set(i int, v interface{}) {
	switch i {
	case 0:
		r.F0 = v
	case 1:
		r.F1 = v
	case 2:
		r.F2 = v
	case 3:
		r.F3 = v
	case 4:
		r.F4 = v
	case 5:
		r.F5 = v
	case 6:
		r.F6 = v
	case 7:
		r.F7 = v
	}
}

type c07Obj struct{ fn func(i, x int) interface{} }

func (o c07Obj) M0(x int) interface{} { return o.fn(0, x) }
func (o c07Obj) M1(x int) interface{} { return o.fn(1, x) }
func (o c07Obj) M2(x int) interface{} { return o.fn(2, x) }
func (o c07Obj) M3(x int) interface{} { return o.fn(3, x) }
func (o c07Obj) M4(x int) interface{} { return o.fn(4, x) }
func (o c07Obj) M5(x int) interface{} { return o.fn(5, x) }
func (o c07Obj) M6(x int) interface{} { return o.fn(6, x) }
func (o c07Obj) M7(x int) interface{} { return o.fn(7, x) }

type c07OpT struct {
	spell     func(i int) string
	shared    string // name of the one counted helper all conditions of this spelling call ("" = none)
	pure      bool   // reads context data only: no counter
	parenLeft bool   // `a(x).F && true` is rejected by the parser (not C07's subject): written `(a(x).F) && true`
	what      string
}

var c07Ops = map[string]c07OpT{
	"c": {spell: func(i int) string { return fmt.Sprintf("c%d(x)", i) }, what: "own helper c<i>(x)"},
	"s": {spell: func(i int) string { return "nx(x)" }, shared: "nx", what: "the same stateful call nx(x) (k-th call returns the k-th such condition's value)"},
	"q": {spell: func(i int) string { return fmt.Sprintf("q(x, %d)", i) }, what: "same callee, other argument q(x, <i>)"},
	"m": {spell: func(i int) string { return fmt.Sprintf("obj.M%d(x)", i) }, what: "another method of one receiver obj.M<i>(x)"},
	"f": {spell: func(i int) string { return fmt.Sprintf("rec(x).F%d", i) }, shared: "rec", parenLeft: true, what: "another field of the same call's result rec(x).F<i>"},
	"i": {spell: func(i int) string { return fmt.Sprintf("row(x)[%d]", i) }, shared: "row", what: "another element of the same call's result row(x)[<i>]"},
	"k": {spell: func(i int) string { return fmt.Sprintf(`mp(x)["k%d"]`, i) }, shared: "mp", what: `another key of the same call's result mp(x)["k<i>"]`},
	"v": {spell: func(i int) string { return fmt.Sprintf("rvs[x].F%d", i) }, pure: true, parenLeft: true, what: "another field of the same context variable's element rvs[x].F<i>"},
	"w": {spell: func(i int) string { return fmt.Sprintf("vals[x][%d]", i) }, pure: true, what: "another element of the same context variable vals[x][<i>]"},
}

var c07OpNames = []string{"c", "s", "q", "m", "f", "i", "k", "v", "w"}
var c07SharedKeys = []string{"nx", "rec", "row", "mp"}

func c07SharedText(m map[string]int) string {
	var p []string
	for _, k := range c07SharedKeys {
		if n, ok := m[k]; ok {
			p = append(p, fmt.Sprintf("%s=%d", k, n))
		}
	}
	return "{" + strings.Join(p, " ") + "}"
}

func (c c07Chain) op(i int) string {
	if c.ops == nil || i >= len(c.ops) || c.literalAt(i) {
		return "c"
	}
	return c.ops[i]
}

func (c c07Chain) defaultOps() bool {
	for i := range c.ops {
		if c.op(i) != "c" {
			return false
		}
	}
	return true
}

// canonical ops: a written kind has no operand spelling; all-default is nil
func (c c07Chain) normOps() c07Chain {
	if c.ops == nil {
		return c
	}
	ops := make([]string, len(c.forms))
	for i := range ops {
		ops[i] = c.op(i)
	}
	c.ops = ops
	if c.defaultOps() {
		c.ops = nil
	}
	return c
}

// distinct non-default spellings of a chain, in c07OpNames order
func (c c07Chain) opSig() []string {
	has := map[string]bool{}
	for i := range c.forms {
		has[c.op(i)] = true
	}
	var sig []string
	for _, o := range c07OpNames {
		if o != "c" && has[o] {
			sig = append(sig, o)
		}
	}
	return sig
}

// the context entries the non-default spellings need; calls[i] / shared[name] count evaluations
func c07OpsData(c c07Chain, data map[string]interface{}, calls []int, shared map[string]int) {
	kinds := c07KindMap
	n := len(c.forms)
	val := func(x, i int) interface{} {
		if x < 0 || x >= len(c.rows) || i < 0 || i >= n {
			return nil
		}
		return kinds[c.rows[x][i]].val
	}
	var sIdx []int
	used := map[string]bool{}
	for i := 0; i < n; i++ {
		used[c.op(i)] = true
		if c.op(i) == "s" {
			sIdx = append(sIdx, i)
		}
	}
	set := func(op, name string, v func() interface{}) {
		if used[op] {
			data[name] = v()
		}
	}
	nxN := make([]int, len(c.rows))
	if used["s"] {
		data["nx"] = func(x int) interface{} {
			shared["nx"]++
			if x < 0 || x >= len(nxN) {
				return nil
			}
			k := nxN[x]
			nxN[x]++
			if k >= len(sIdx) {
				return nil
			}
			return val(x, sIdx[k])
		}
	}
	set("q", "q", func() interface{} {
		return func(x, i int) interface{} {
			if i >= 0 && i < n {
				calls[i]++
			}
			return val(x, i)
		}
	})
	set("m", "obj", func() interface{} {
		return c07Obj{fn: func(i, x int) interface{} {
			if i >= 0 && i < n {
				calls[i]++
			}
			return val(x, i)
		}}
	})
	mkRec := func(x int) c07Rec {
		var r c07Rec
		for i := 0; i < n && i < c07MaxOpsN; i++ {
			r.set(i, val(x, i))
		}
		return r
	}
	mkRow := func(x int) []interface{} {
		r := make([]interface{}, c07MaxOpsN)
		for i := 0; i < n && i < c07MaxOpsN; i++ {
			r[i] = val(x, i)
		}
		return r
	}
	set("f", "rec", func() interface{} { return func(x int) c07Rec { shared["rec"]++; return mkRec(x) } })
	set("i", "row", func() interface{} { return func(x int) []interface{} { shared["row"]++; return mkRow(x) } })
	set("k", "mp", func() interface{} {
		return func(x int) map[string]interface{} {
			shared["mp"]++
			m := map[string]interface{}{}
			for i := 0; i < n; i++ {
				m[c07KeyNames[i]] = val(x, i)
			}
			return m
		}
	})
	set("v", "rvs", func() interface{} {
		var rvs []c07Rec
		for x := range c.rows {
			rvs = append(rvs, mkRec(x))
		}
		return rvs
	})
	set("w", "vals", func() interface{} {
		var vals [][]interface{}
		for x := range c.rows {
			vals = append(vals, mkRow(x))
		}
		return vals
	})
}

var c07KeyNames = []string{"k0", "k1", "k2", "k3", "k4", "k5", "k6", "k7"}

// A chain violates the statement with these operand spellings but not with every condition its own helper:
// look for the simplest chain that still shows it (plain bools, plain forms, one spelling, top level) and
// name the family after what is left.
func c07BlameOps(rep *Report, seen map[string]bool, c c07Chain, r c07ChainObs) {
	top, _ := c07WrapByName("top")
	kinds := c07KindMap
	suffix := ""
	// kinds
	if !r.allBool {
		c1 := c
		c1.rows = nil
		for _, row := range c.rows {
			nr := make([]string, len(row))
			for i, kn := range row {
				nr[i] = c07BoolName(kinds[kn].truthy)
			}
			c1.rows = append(c1.rows, nr)
		}
		c1 = c1.normOps()
		if r1 := c07EvalChain(c1); len(r1.symptoms) > 0 && !c1.defaultOps() {
			c, r = c1, r1
		} else {
			// a kind reaching the condition through this spelling: alone as the only condition?
			blamed := false
			for _, row := range c.rows {
				for i, kn := range row {
					if strings.HasPrefix(kn, "bool-") || c.op(i) == "c" {
						continue
					}
					o := c.op(i)
					one := c07Chain{wrap: top, hasElse: true, forms: []string{"p"}, rows: [][]string{{kn}}, ops: []string{o}}
					if ro := c07EvalChain(one); len(ro.symptoms) > 0 {
						blamed = true
						c07FailChain(rep, seen, one, ro, func(sy string) string { return "chain-truthiness-" + kn + "-via-operand-" + o })
					}
				}
			}
			if blamed {
				return
			}
			suffix += "-nonbool-kinds"
		}
	}
	// forms
	plain := true
	for _, f := range c.forms {
		plain = plain && f == "p"
	}
	if !plain {
		if r.allBool || suffix == "" {
			c2 := c
			c2.forms = c07Plain(len(c.forms))
			c2.rows = nil
			for _, row := range c.rows {
				nr := make([]string, len(row))
				for i, kn := range row {
					nr[i] = c07BoolName(kinds[kn].truthy != c07Forms[c.forms[i]].negate)
				}
				c2.rows = append(c2.rows, nr)
			}
			if r2 := c07EvalChain(c2); len(r2.symptoms) > 0 {
				c, r, plain = c2, r2, true
			}
		}
		if !plain {
			suffix += "-with-condition-forms"
		}
	}
	// one spelling
	if sig := c.opSig(); len(sig) > 1 {
		for _, o := range sig {
			co := c
			co.ops = make([]string, len(c.forms))
			for i := range co.ops {
				co.ops[i] = "c"
				if c.op(i) == o {
					co.ops[i] = o
				}
			}
			if ro := c07EvalChain(co); len(ro.symptoms) > 0 {
				c, r = co, ro
				break
			}
		}
	}
	sig := strings.Join(c.opSig(), "+")
	site := func(sy string) string { return "chain-" + sy + "-operands-spelled-" + sig + suffix }
	// placement
	if c.wrap.name != "top" {
		atTop := false
		for _, row := range c.rows {
			t := c07Chain{wrap: top, hasElse: c.hasElse, forms: c.forms, rows: [][]string{row}, ops: c.ops}
			if rt := c07EvalChain(t); len(rt.symptoms) > 0 {
				atTop = true
				c07FailChain(rep, seen, t, rt, site)
			}
		}
		if atTop {
			return
		}
		in := "-in-" + c.wrap.name
		c07FailChain(rep, seen, c, r, func(sy string) string { return site(sy) + in })
		return
	}
	c07FailChain(rep, seen, c, r, site)
}

// exhaustive: every truth assignment, every condition spelled the same way
func c07GenSpelled(rep *Report, seen map[string]bool, cfg Config) {
	maxN1, maxN2 := cfg.N(4, 5), cfg.N(3, 4)
	uniform := func(o string, n int) []string {
		ops := make([]string, n)
		for i := range ops {
			ops[i] = o
		}
		return ops
	}
	for _, o := range c07OpNames[1:] {
		for _, w := range c07Wraps {
			for _, hasElse := range []bool{false, true} {
				if w.rows == 1 {
					for n := 1; n <= maxN1; n++ {
						for bits := 0; bits < 1<<uint(n); bits++ {
							c07RunChain(rep, seen, c07Chain{wrap: w, hasElse: hasElse, forms: c07Plain(n), rows: [][]string{c07BoolRow(n, bits)}, ops: uniform(o, n)}, "spelled-exhaustive")
						}
					}
				} else {
					for n := 1; n <= maxN2; n++ {
						for b0 := 0; b0 < 1<<uint(n); b0++ {
							for b1 := 0; b1 < 1<<uint(n); b1++ {
								c07RunChain(rep, seen, c07Chain{wrap: w, hasElse: hasElse, forms: c07Plain(n),
									rows: [][]string{c07BoolRow(n, b0), c07BoolRow(n, b1)}, ops: uniform(o, n)}, "spelled-exhaustive")
							}
						}
					}
				}
				if rep.Full() {
					return
				}
			}
		}
	}
	// kind at position through each spelling: every Go-valued kind at position 0,1,2 of a 3-chain whose
	// conditions are all spelled the same way, the other two conditions taking every truth assignment
	for _, k := range c07AllKinds {
		if !k.isVar || k.light || k.noHelper {
			continue
		}
		for pos := 0; pos < 3; pos++ {
			for bits := 0; bits < 4; bits++ {
				mk := func(b int) []string {
					row := make([]string, 0, 3)
					for j, o := 0, 0; j < 3; j++ {
						if j == pos {
							row = append(row, k.name)
							continue
						}
						row = append(row, c07BoolName(b>>uint(o)&1 == 1))
						o++
					}
					return row
				}
				for _, o := range c07OpNames[1:] {
					for _, wn := range []string{"top", "for"} {
						w, _ := c07WrapByName(wn)
						rows := [][]string{mk(bits)}
						if w.rows == 2 {
							rows = append(rows, mk(3-bits))
						}
						c07RunChain(rep, seen, c07Chain{wrap: w, hasElse: true, forms: c07Plain(3), rows: rows, ops: uniform(o, 3)}, "spelled-kind-at-position")
					}
				}
			}
		}
		if rep.Full() {
			return
		}
	}
}

// random spellings for a random chain: one spelling for all conditions, or one per condition
func c07RandomOps(r *Rng, n int) []string {
	ops := make([]string, n)
	if r.Bool() {
		o := Pick(r, c07OpNames[1:])
		for i := range ops {
			ops[i] = o
		}
		return ops
	}
	for i := range ops {
		ops[i] = Pick(r, c07OpNames)
	}
	return ops
}

func c07OpsRule() string {
	var p []string
	for _, o := range c07OpNames[1:] {
		p = append(p, o+": "+c07Ops[o].what)
	}
	return strings.Join(p, "; ")
}
