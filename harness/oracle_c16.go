package main

import (
	"bytes"
	"encoding/json"
	"fmt"
	"strconv"
	"strings"
	"sync"
	"time"

	plush "github.com/gobuffalo/plush/v5"
)

// C16 oracle: user-defined functions bind parameters to argument VALUES (arguments evaluated in the caller's
// scope), run the body in a fresh scope, yield the value of the first return reached and skip everything after
// it; the value is an ordinary value; functions are first-class and may recurse.
//
// Programs are written in a tiny language (c16Expr / c16Stmt: literals, variables, + - * == != < > ! && ||,
// calls; let, if/else-if/else, return, mark) that is printed as a plush template and evaluated by the
// reference evaluator below (call-by-value, arguments evaluated left to right in the caller's environment,
// fresh environment per call, first return wins). c16mark(n) is a Go helper that logs n: it shows which
// statements ran, so "skipping everything after the return" is observed directly.

type c16Val struct {
	K string // int | str | bool | fn | arr | nil
	I int
	S string
	B bool
	F *c16Fn
	A *[]c16Val // arr: the elements (a pointer keeps c16Val comparable; arrays are only iterated, never compared)
}

func (v c16Val) Render() string {
	switch v.K {
	case "int":
		return strconv.Itoa(v.I)
	case "str":
		return v.S
	case "bool":
		return strconv.FormatBool(v.B)
	case "nil":
		return ""
	}
	return "<fn>"
}

func (v c16Val) Src() string {
	if v.K == "str" {
		return strconv.Quote(v.S)
	}
	if v.K == "arr" {
		ss := []string{}
		for _, e := range *v.A {
			ss = append(ss, e.Src())
		}
		return "[" + strings.Join(ss, ", ") + "]"
	}
	if v.K == "nil" {
		return "nil"
	}
	if v.K == "fn" {
		return v.F.Name
	}
	return v.Render()
}

// GoFmt: what fmt.Sprintf("%T:%v") prints for the plain Go value a helper must receive.
func (v c16Val) GoFmt() string {
	switch v.K {
	case "int":
		return "int:" + v.Render()
	case "str":
		return "string:" + v.S
	case "nil":
		return "<nil>:<nil>"
	}
	return "bool:" + v.Render()
}

type c16Expr struct {
	T    string // lit | var | bin | not | call | raw (N = source text, V = its value) | list (Args = the elements) | mapget (c16m[N], N a string variable: the value under that key, nil when there is none) | isunset (N == nil: the name is not bound, or holds nil)
	V    c16Val
	N    string // var name / callee name
	Op   string
	L, R *c16Expr
	Args []*c16Expr
}

func (e *c16Expr) Src() string {
	switch e.T {
	case "lit":
		return e.V.Src()
	case "var", "raw":
		return e.N
	case "mapget":
		return "c16m[" + e.N + "]"
	case "isunset":
		return e.N + " == nil"
	case "not":
		return "!" + e.L.Src()
	case "list":
		ss := []string{}
		for _, a := range e.Args {
			ss = append(ss, a.Src())
		}
		return "[" + strings.Join(ss, ", ") + "]"
	case "call":
		ss := []string{}
		for _, a := range e.Args {
			ss = append(ss, a.Src())
		}
		return e.N + "(" + strings.Join(ss, ", ") + ")"
	}
	l, r := e.L.Src(), e.R.Src()
	if e.L.T == "bin" {
		l = "(" + l + ")"
	}
	if e.R.T == "bin" {
		r = "(" + r + ")"
	}
	return l + " " + e.Op + " " + r
}

type c16Stmt struct {
	T       string // ret | if | let | set (assignment to a parameter / local of the function itself) | mark | for (N = loop variable, E = iterable, Then = body) | probe (E = a call that may fail, N = the form that forgives it, ID = number of its throw-away local; see oracle_c16_scope.go)
	E       *c16Expr
	N       string
	ID      int
	Then    []*c16Stmt
	Elifs   []c16Elif
	Else    []*c16Stmt
	HasElse bool
}

type c16Elif struct {
	C    *c16Expr
	Body []*c16Stmt
}

type c16Fn struct {
	Name   string
	Params []string
	PT     []string
	RT     string
	Body   []*c16Stmt
}

func c16Block(ss []*c16Stmt, ind string) string {
	var b strings.Builder
	for _, s := range ss {
		switch s.T {
		case "ret":
			b.WriteString(ind + "return " + s.E.Src() + "\n")
		case "let":
			b.WriteString(ind + "let " + s.N + " = " + s.E.Src() + "\n")
		case "set":
			b.WriteString(ind + s.N + " = " + s.E.Src() + "\n")
		case "mark":
			b.WriteString(ind + "c16mark(" + strconv.Itoa(s.ID) + ")\n")
		case "for":
			b.WriteString(ind + "for (" + s.N + ") in " + s.E.Src() + " {\n" + c16Block(s.Then, ind+" ") + ind + "}\n")
		case "probe":
			b.WriteString(c16ProbeSrc(s.N, s.E, s.ID, ind))
		case "if":
			b.WriteString(ind + "if (" + s.E.Src() + ") {\n" + c16Block(s.Then, ind+" "))
			for _, e := range s.Elifs {
				b.WriteString(ind + "} else if (" + e.C.Src() + ") {\n" + c16Block(e.Body, ind+" "))
			}
			if s.HasElse {
				b.WriteString(ind + "} else {\n" + c16Block(s.Else, ind+" "))
			}
			b.WriteString(ind + "}\n")
		}
	}
	return b.String()
}

func (f *c16Fn) Def() string {
	return "<% let " + f.Name + " = fn(" + strings.Join(f.Params, ", ") + ") {\n" + c16Block(f.Body, " ") + "} %>"
}

// ---- reference evaluator

type c16Env struct {
	vars  map[string]c16Val
	outer *c16Env
}

func (e *c16Env) get(n string) (c16Val, bool) {
	for ; e != nil; e = e.outer {
		if v, ok := e.vars[n]; ok {
			return v, true
		}
	}
	return c16Val{}, false
}

type c16Ref struct {
	marks     []int
	steps     int
	loops     int          // loop bodies the evaluation is currently inside of (within the current function activation)
	retInLoop bool         // some return was reached inside a loop body
	failCall  *c16FailCall // the innermost call whose body failed on the unset variable (see probe)
	probes    []string     // one standalone template per forgiven failure (see c16Case.Probes)
}

type c16Stuck struct{ why string }

func (m *c16Ref) eval(e *c16Expr, env *c16Env) c16Val {
	m.steps++
	if m.steps > 100000 {
		panic(c16Stuck{"too many steps"})
	}
	switch e.T {
	case "lit", "raw":
		return e.V
	case "list":
		vs := []c16Val{}
		for _, a := range e.Args {
			vs = append(vs, m.eval(a, env))
		}
		return c16Val{K: "arr", A: &vs}
	case "var":
		v, ok := env.get(e.N)
		if !ok {
			panic(c16Stuck{"unbound " + e.N})
		}
		if v.K == "nil" {
			// open: plush treats a variable that holds nil as unset everywhere (not only for parameters); only
			// ==, !=, !, &&, || and conditions accept it (see operand)
			panic(c16Stuck{"variable holding nil used as a value: " + e.N})
		}
		return v
	case "not":
		return c16Val{K: "bool", B: !c16Truth(m.operand(e.L, env))}
	case "mapget": // the context value c16m holds "x" under "x" and "y" under "y"
		k, ok := env.get(e.N)
		if !ok || k.K != "str" {
			panic(c16Stuck{"map key " + e.N})
		}
		if k.S == "x" || k.S == "y" {
			return k
		}
		return c16Val{K: "nil"}
	case "isunset":
		v, ok := env.get(e.N)
		return c16Val{K: "bool", B: !ok || v.K == "nil"}
	case "call":
		fv, ok := env.get(e.N)
		if !ok || fv.K != "fn" {
			panic(c16Stuck{"not a function: " + e.N})
		}
		args := []c16Val{}
		for _, a := range e.Args { // caller's scope, before any parameter is bound
			args = append(args, m.eval(a, env))
		}
		if len(args) != len(fv.F.Params) {
			panic(c16Stuck{"arity"})
		}
		// fresh scope. Its parent is the caller's scope: function bodies here have no free variables
		// except top-level function names, so defining-scope and calling-scope resolution agree.
		c := &c16Env{vars: map[string]c16Val{}, outer: env}
		for i, p := range fv.F.Params {
			c.vars[p] = args[i]
		}
		saved := m.loops // a loop around the CALL is not a loop around the callee's return
		m.loops = 0
		v, ret := m.body(fv.F, args, c)
		m.loops = saved
		if !ret {
			panic(c16Stuck{"no return reached"})
		}
		return v
	}
	b := func(x bool) c16Val { return c16Val{K: "bool", B: x} }
	sub := m.eval
	switch e.Op {
	case "==", "!=", "&&", "||":
		sub = m.operand
	}
	l := sub(e.L, env)
	if e.Op == "&&" && !c16Truth(l) {
		return c16Val{K: "bool"}
	}
	if e.Op == "||" && c16Truth(l) {
		return c16Val{K: "bool", B: true}
	}
	r := sub(e.R, env)
	if e.Op == "&&" || e.Op == "||" {
		return b(c16Truth(r))
	}
	if l.K != r.K {
		if (l.K == "nil" || r.K == "nil") && (e.Op == "==" || e.Op == "!=") { // nil equals nil only
			return b(e.Op == "!=")
		}
		panic(c16Stuck{"mixed operand types"})
	}
	switch e.Op {
	case "==":
		return b(l == r)
	case "!=":
		return b(l != r)
	}
	switch l.K {
	case "int":
		switch e.Op {
		case "+":
			return c16Val{K: "int", I: l.I + r.I}
		case "-":
			return c16Val{K: "int", I: l.I - r.I}
		case "*":
			return c16Val{K: "int", I: l.I * r.I}
		case "<":
			return b(l.I < r.I)
		case ">":
			return b(l.I > r.I)
		}
	case "str":
		if e.Op == "+" {
			return c16Val{K: "str", S: l.S + r.S}
		}
	}
	panic(c16Stuck{"operator " + e.Op + " on " + l.K})
}

// c16Truth: what a condition makes of a value: a bool is itself, nil is false, a non-empty string is true. Other
// values are not used as conditions here.
func c16Truth(v c16Val) bool {
	switch {
	case v.K == "bool":
		return v.B
	case v.K == "nil":
		return false
	case v.K == "str" && v.S != "":
		return true
	}
	panic(c16Stuck{"truth of " + v.K})
}

// operand: an operand of ==, !=, !, &&, || or a condition: the places in which a variable that holds nil may be
// mentioned.
func (m *c16Ref) operand(e *c16Expr, env *c16Env) c16Val {
	if e.T == "var" {
		if v, ok := env.get(e.N); ok && v.K == "nil" {
			m.steps++
			return v
		}
	}
	return m.eval(e, env)
}

func (m *c16Ref) run(ss []*c16Stmt, env *c16Env) (c16Val, bool) {
	for _, s := range ss {
		switch s.T {
		case "ret":
			if m.loops > 0 {
				m.retInLoop = true
			}
			return m.eval(s.E, env), true
		case "let":
			env.vars[s.N] = m.eval(s.E, env)
		case "set":
			// only a name the function's own scope binds (a parameter, an earlier let of this body): what an
			// assignment to a name of an outer scope does is open
			if _, own := env.vars[s.N]; !own {
				panic(c16Stuck{"assignment to a name of another scope: " + s.N})
			}
			env.vars[s.N] = m.eval(s.E, env)
		case "mark":
			m.marks = append(m.marks, s.ID)
		case "probe":
			m.probe(s.E, s.N, env)
		case "for":
			it := m.eval(s.E, env)
			if it.K != "arr" {
				panic(c16Stuck{"for over " + it.K})
			}
			for _, x := range *it.A {
				// the loop variable lives in the loop's own scope (loop bodies here have no let)
				le := &c16Env{vars: map[string]c16Val{s.N: x}, outer: env}
				m.loops++
				v, ret := m.run(s.Then, le)
				m.loops--
				if ret { // the first return reached ends the function, wherever it is
					return v, true
				}
			}
		case "if":
			body, taken := s.Then, c16Truth(m.operand(s.E, env))
			if !taken {
				for _, e := range s.Elifs {
					if c16Truth(m.operand(e.C, env)) {
						body, taken = e.Body, true
						break
					}
				}
			}
			if !taken && s.HasElse {
				body, taken = s.Else, true
			}
			if taken {
				if v, ret := m.run(body, env); ret { // if is not a scope in plush
					return v, true
				}
			}
		}
	}
	return c16Val{}, false
}

// ---- the case

type c16Case struct {
	Tmpl  string `json:"tmpl"`
	Want  string `json:"want"`
	Marks []int  `json:"marks,omitempty"`
	Arity bool   `json:"arity,omitempty"` // too few arguments: anything but a panic / hang is accepted
	Shape string `json:"shape"`
	Site  string `json:"site"` // how the call's value is used
	// context values (name -> literal in template syntax) besides the helpers
	Ctx map[string]string `json:"ctx,omitempty"`
	// templates rendered before Tmpl, in this order, with the SAME context (what their top-level lets bind stays
	// visible); their output precedes that of Tmpl in Want
	Pre []string `json:"pre,omitempty"`
	// what the partialFeeder of the context answers: name -> template
	Partials map[string]string `json:"partials,omitempty"`
	// every template goes through plush.Parse + Template.Exec instead of plush.Render
	Exec bool `json:"exec,omitempty"`
	// the case contains calls that fail on an unset variable in a place where plush forgives that (operand of
	// == != && || !, a condition). Whether it forgives is NOT part of the property: each of these templates holds one
	// such failure on its own; when the case ends in an error and one of them does too, the case is open
	Probes []string `json:"probes,omitempty"`
	// the value the reference gives the call (c16Build; not part of the case text)
	rv c16Val
}

// c16GoVal: the Go value of a literal written in template syntax ("x", 2, true).
func c16GoVal(src string) interface{} {
	if s, err := strconv.Unquote(src); err == nil {
		return s
	}
	if src == "true" || src == "false" {
		return src == "true"
	}
	n, _ := strconv.Atoi(src)
	return n
}

func c16JSON(v interface{}) string {
	var b bytes.Buffer
	e := json.NewEncoder(&b)
	e.SetEscapeHTML(false)
	e.Encode(v)
	return strings.TrimSpace(b.String())
}

type c16Verdict struct{ Kind, Site, What, Obs string }

func c16Eval(cs *c16Case) c16Verdict {
	var mu sync.Mutex
	marks := []int{}
	data := map[string]interface{}{
		// also the fuel of recursive programs: a runaway recursion is cut by an error instead of
		// exhausting the stack of a goroutine that cannot be killed
		"c16mark": func(id int) error {
			mu.Lock()
			defer mu.Unlock()
			marks = append(marks, id)
			if len(marks) > 300 {
				return fmt.Errorf("c16mark: more than 300 marks in one render (runaway recursion?)")
			}
			return nil
		},
		"c16show": func(v interface{}) string { return fmt.Sprintf("%T:%v", v, v) },
		// the same for values that may be nil
		"c16kind": func(v interface{}) string {
			if v == nil {
				return "nil"
			}
			return fmt.Sprintf("%T:%v", v, v)
		},
		// sources of nil values: a missing key of c16m, the result of c16nil()
		"c16m":   map[string]interface{}{"x": "x", "y": "y"},
		"c16nil": func() interface{} { return nil },
	}
	for k, v := range cs.Ctx {
		data[k] = c16GoVal(v)
	}
	if cs.Partials != nil {
		data["partialFeeder"] = func(name string) (string, error) {
			if t, ok := cs.Partials[name]; ok {
				return t, nil
			}
			return "", fmt.Errorf("c16: no partial %q", name)
		}
	}
	ctx := plush.NewContextWith(data)
	render := func(t string) (string, error) {
		if cs.Exec {
			tm, err := plush.Parse(t)
			if err != nil {
				return "", err
			}
			return tm.Exec(ctx)
		}
		return plush.Render(t, ctx)
	}
	o := safeCall(3*time.Second, func() (string, error) {
		out := ""
		for _, t := range append(append([]string{}, cs.Pre...), cs.Tmpl) {
			s, err := render(t)
			if err != nil {
				return out + s, err
			}
			out += s
		}
		return out, nil
	})
	switch o.Kind() {
	case "PANIC":
		return c16Verdict{"panic", o.Site, "render panicked: " + o.Panic, "PANIC"}
	case "HANG":
		return c16Verdict{"hang", "user-function:" + cs.Shape, "render did not return", "HANG"}
	}
	if cs.Arity {
		return c16Verdict{Obs: o.Kind()}
	}
	if o.Kind() == "ERR" && c16ProbesOpen(cs) {
		return c16Verdict{Obs: "ERR-open"}
	}
	if o.Kind() == "ERR" {
		return c16Verdict{"wrong-error", cs.Shape, fmt.Sprintf("expected %q (call value used in: %s), got error: %v", cs.Want, cs.Site, o.Err), "ERR"}
	}
	if o.Out != cs.Want {
		return c16Verdict{"wrong-output", cs.Shape, fmt.Sprintf("expected %q (call value used in: %s), got %q", cs.Want, cs.Site, o.Out), "OK"}
	}
	mu.Lock()
	defer mu.Unlock()
	if fmt.Sprint(marks) != fmt.Sprint(append([]int{}, cs.Marks...)) {
		site := cs.Shape // a risky shape: wrong parameter values take other branches
		switch cs.Shape {
		case "decision-chain", "args-same-names", "first-class-stored", "first-class-passed", "recursion-tail":
			site = "statements-run-differ"
			if len(marks) > len(cs.Marks) {
				site = "statements-after-return-run"
			}
		}
		return c16Verdict{"wrong-output", site, fmt.Sprintf("value %q is right but the statements that ran differ: marks expected %v, observed %v", o.Out, cs.Marks, marks), "OK"}
	}
	return c16Verdict{Obs: "OK"}
}

func c16Record(rep *Report, cs *c16Case, v c16Verdict) {
	text := c16JSON(cs)
	rep.Count(text, true)
	rep.Tag("shape:" + cs.Shape)
	rep.Tag("use:" + cs.Site)
	rep.Tag(v.Obs)
	if v.Kind == "" {
		return
	}
	rep.Tag("FAIL")
	for _, f := range rep.Failures { // several cases can reduce to the same one
		if f.Case == text {
			return
		}
	}
	rep.Fail(Failure{Case: text, Kind: v.Kind, Site: v.Site, What: v.What, Extra: cs.Tmpl})
}

func init() {
	oracles["C16"] = func(cfg Config) []*Report {
		rep := NewReport("C16", "C16", cfg)
		rep.Rule = "generated functions of 0-4 typed parameters (int/string/bool) whose bodies are decision chains (if / else-if / else, nested ifs, let-bound locals, returns of parameters, literals, concatenations, sums, comparisons; c16mark statements before and after returns), called with ALL tuples over {0,1,2} x {\"x\",\"y\"} x {true,false}; arguments written as literals, as caller variables named like the parameters in the same order, permuted (f(b, a)), or as expressions over them (f(b, a + 1)); the value used in an output tag, an if condition, ==, let (+ later ==), as argument of another user function and of a Go helper (which must receive the plain Go value), in string concatenation / arithmetic / negation; first-class use (stored in a variable, passed as an argument and called through a parameter, also with parameter names that collide); recursion to depth 6 (countdown, sum, factorial, string building, accumulators in both parameter orders, fibonacci, mutual recursion, let-bound intermediate); too few arguments (must not panic); arguments that are, or contain, user function calls, in every argument position (the function itself with another tuple, another generated decision chain, identity / k-th-of-m projection functions whose other arguments differ from the outer call's, two levels deep, as operand of an argument expression; also through a stored / passed function), recursion through an argument (add(n, sum(n - 1)), f(n - 1, f(0, ..)) in first and later positions); a second call of the function after an earlier call with another tuple; loops in function bodies (for { if { return } }, for { return }, nested for, for inside if / else, two loops; arrays passed as literal / caller variable or written in the body; marks before, inside and after the loop); nil- and zero-valued arguments (optional parameters with values nil / \"\" 0 false / another value, every tuple with a nil among up to 12 per function; nil written as nil, a missing map key, the result of a helper; the body tests such parameters with == nil, != nil, nil ==, truth, !, == value) while a non-nil variable named like each parameter is visible from the call site: a let, a loop variable, a value of the render context, the parameter of a calling function, the same parameter of the calling invocation (recursions that pass nil on, depth 0..6); histories in which ONE call site is evaluated several times while its callee name holds different functions (2-4 generated chains of one signature with disjoint marks): a higher-order function used 2-5 times with alternating function arguments (named, stored, or the value of a chooser function; result returned / let-bound / compared / tested / concatenated inside it), a loop variable ranging over a list of functions (also nested with a loop over argument values, list stored first), a free name re-bound (assignment or let) between uses of the function that calls it, recursive / composing combinators (rep, twice, comp, zig) whose callbacks change between uses, a local that holds either function, and one call site in a loop over argument values; scope histories (oracle_c16_scope.go): (1) a function defined by ONE template and called by ANOTHER one - 1-3 later renders with the same context (plush.Render or Parse + Exec, the function also stored under another name by a render in between) or a partial of the defining / a later page (data named like the parameters, the function handed over as data) - from a call site with variables of its own: inside another function (parameters named like the callee's, rotated, permuted arguments), in a for loop (loop variable named like a parameter), in a partial, a loop around the partial, a loop / function inside the partial, while top-level variables of the same names hold other values; (2) a call that FAILS on an unset variable (in its body, 0-4 frames down a recursion, through another user function, through a function parameter, inside a loop of the body, inside an argument of another call, or an argument that is the unset variable itself) in a place where plush forgives that (18 forms: operand of == != && || !, left and right, if / else-if conditions), value discarded, followed by reads of the caller's variables named like the failed callee's parameters and by further calls over them (same names / permuted / expressions) - at top level, inside a calling function (1-2 failures, then its return value), in a loop body, in a partial; ~88% of these histories contain a failing call; nil return values (oracle_c16_fresh.go): decision chains of 0-4 parameters some of whose returns yield nil (return nil, a missing key of a map - also looked up under a parameter -, the result of a helper) or a zero value (\"\" 0 false), up to 8 tuples per function for which the reference yields nil and up to 3 others, the value emitted, tested (if, !, || false, true &&), compared (== / != nil and values, either side), let-bound then compared, handed to a Go helper (must receive nil) and to user functions that compare / test their parameter, called directly / stored / passed / through a function that returns it again, literal / same-name / permuted arguments; recursions that hand nil up 0..6 frames, look it up at the bottom, compare or test it in the frame above; locals of the body (callee-locals-in-fresh-scope): functions of 0-4 parameters (1/3 with none) whose bodies bind names with let (new names, their own parameters, names of caller variables, a top-level variable they have just read: let u1 = u1 + 1; locals of one if branch) or assign their own locals / parameters, called 1-3 times from the top level (variables of those names before, every watched name read after every call - names the caller does not have must stay unset; sometimes read by a later render with the same context), from a function whose parameters are named like the callee's locals (callee by name, stored, through ap, or as a parameter of the caller; called once or twice; the caller returns a result or one of its parameters) and from a for loop whose variable is named like a local. Expected value and executed marks from a call-by-value reference evaluator. Every case calls a user function; non-trivial = all; distinct by case text"
		rep.Notes = append(rep.Notes,
			"not checked (open): too many arguments; a function whose body reaches no return; text emitted inside a function body; let inside a loop body; too few arguments is only required not to panic or hang",
			"family ids are derived from the shape of the case, not from the symptom: args-evaluated-in-callee-scope = arguments mention caller variables named like parameters in another position; call-value-is-return-object = the call's value is consumed by anything other than an output tag; cases with both features are reduced to one feature when that still fails; argument-is-call-result = an argument of the call is (or contains) a user function call (arguments that are calls are turned back into their plain values while the case still fails); call-after-earlier-call = the function was called before with other arguments",
			"nil-argument-binds-parameter: plush treats a variable that holds nil as unset everywhere (a plain let too), so a parameter bound to nil can only be mentioned in ==, !=, !, &&, || and conditions; only those uses are generated and checked, anything else is left open (the reference refuses it: not-a-case). Passing a nil-valued variable on as an argument is open for the same reason",
			"histories (…-another-function, loop-over-…, local-holds-either-function): every emitted value is followed by |; a history that still fails after it was reduced to a single use is reported as <family>:single-use (then the failure does not need several uses)",
			"scope histories: function-called-from-later-render / function-called-from-partial = the function value is called by another evaluation than the one that created it (…:single-render = the case still fails as one template); caller-scope-after-failed-call = something after a forgiven failing call is wrong (…:no-failed-call = the case still fails without the failing call). Whether plush forgives a failure inside a function body is NOT checked (open): the value of the forgiving expression is never used, and a case that ends in an error is only a failure if each forgiven failure on its own (case field probes) renders without error - otherwise it is counted as ERR-open",
			"nil-return-value-used / nil-return-value-emitted: the reference says the call yields nil (whatever else the case contains). Not generated (open): truth of \"\" and of numbers, a nil result bound by let and then mentioned as a value, a nil result returned by an identity function's parameter. callee-locals-in-fresh-scope: only bindings whose meaning does not depend on open questions are generated: no assignment to a name of an outer scope, no let inside a loop body, a local bound inside an if block is read in that block only, free variables are top-level names that no frame in between binds (defining-scope and calling-scope lookup agree), a loop variable is not read after its loop; …:no-locals = the case still fails when the bodies bind nothing",
			"return-inside-loop-does-not-end-function: the property says the call yields the value of the first return reached, skipping everything after it; in plush a return inside a for body only ends that iteration. Cases of the loop family in which the reference reaches a return inside a loop are reported under this one id, the others under loop-in-function-body")
		if cfg.Arg != "" {
			var cs c16Case
			if err := json.Unmarshal([]byte(cfg.Arg), &cs); err != nil {
				rep.Notes = append(rep.Notes, "cannot parse --arg as a C16 case: "+err.Error())
				return []*Report{rep}
			}
			c16Record(rep, &cs, c16Eval(&cs))
			return []*Report{rep}
		}
		c16Generate(cfg, rep, NewRng(cfg.Seed).Fork(16))
		return []*Report{rep}
	}
}
