package main

import (
	"fmt"
	"strconv"
	"strings"
)

// Generator for the C08 oracle: loop bodies as a small AST, three printers (loop side) and the
// unroller (per-element straight-line side). The generator knows the element values, so it can
// decide where break/continue/return fire; plush renders both sides.

type c08Lit struct {
	Str bool
	I   int
	S   string
	Nil bool // the untyped nil
	Opq bool // a non-nil value the generator knows nothing else about (compared with nil only)
}

func (l c08Lit) Src() string {
	if l.Nil {
		return "nil"
	}
	if l.Opq {
		panic("c08: an opaque value has no source form")
	}
	if l.Str {
		return strconv.Quote(l.S)
	}
	return strconv.Itoa(l.I)
}

func c08LitOf(v interface{}) (c08Lit, bool) {
	switch t := v.(type) {
	case nil:
		return c08Lit{Nil: true}, true
	case int:
		return c08Lit{I: t}, true
	case string:
		return c08Lit{Str: true, S: t}, true
	}
	return c08Lit{}, false
}

type c08Cond struct {
	Op   string // cmp | const | and | or | truthy (the bare variable as a condition)
	Var  string
	Cmp  string
	Lit  c08Lit
	B    bool
	L, R *c08Cond
}

func (c *c08Cond) Src() string {
	switch c.Op {
	case "const":
		return strconv.FormatBool(c.B)
	case "and":
		return "(" + c.L.Src() + ") && (" + c.R.Src() + ")"
	case "or":
		return "(" + c.L.Src() + ") || (" + c.R.Src() + ")"
	case "truthy":
		return c.Var
	}
	return c.Var + " " + c.Cmp + " " + c.Lit.Src()
}

func (c *c08Cond) Eval(env map[string]c08Lit) bool {
	switch c.Op {
	case "const":
		return c.B
	case "and":
		return c.L.Eval(env) && c.R.Eval(env)
	case "or":
		return c.L.Eval(env) || c.R.Eval(env)
	}
	v, bound := env[c.Var]
	if !bound {
		panic("c08: condition on a variable the generator does not know: " + c.Src())
	}
	if c.Op == "truthy" { // nil and "" are false; every number (0 too) is true
		return !v.Nil && !(v.Str && v.S == "")
	}
	if v.Nil || c.Lit.Nil { // nil equals nil only
		switch c.Cmp {
		case "==":
			return v.Nil && c.Lit.Nil
		case "!=":
			return !(v.Nil && c.Lit.Nil)
		}
		panic("c08: ordering comparison with nil " + c.Src())
	}
	if v.Opq {
		panic("c08: comparison of an opaque value " + c.Src())
	}
	if v.Str {
		switch c.Cmp {
		case "==":
			return v.S == c.Lit.S
		case "!=":
			return v.S != c.Lit.S
		}
		panic("c08: string comparison " + c.Cmp)
	}
	switch c.Cmp {
	case "==":
		return v.I == c.Lit.I
	case "!=":
		return v.I != c.Lit.I
	case "<":
		return v.I < c.Lit.I
	case ">":
		return v.I > c.Lit.I
	case "<=":
		return v.I <= c.Lit.I
	case ">=":
		return v.I >= c.Lit.I
	}
	panic("c08: comparison " + c.Cmp)
}

type c08Elif struct {
	Cond *c08Cond
	Body []*c08Stmt
}

type c08Stmt struct {
	T string // text | emit | let | fn | ctl | ret | if | for
	S string // text; variable (emit, ret, let source); break|continue; let/fn name
	N string // let: name bound
	// if
	Cond    *c08Cond
	Then    []*c08Stmt
	Elifs   []c08Elif
	Else    []*c08Stmt
	HasElse bool
	Eq      bool // written <%= if … (always when a branch emits)
	// for
	K, V   string
	Src    string
	Elems  []c08Lit
	Silent bool // written <% for … : its body has no output
	Body   []*c08Stmt
	// for, iterable built from enclosing variables when the loop is ENTERED (a loop node entered more than
	// once in one render must evaluate its iterable again each time)
	Dyn  string  // "" (Src/Elems, constant) | arr: [EX…] | hash: {"n": EX[0]} or {} | range: range(EX[0], EX[1]), N elements
	EX   []c08EX // element expressions (arr, hash) / bounds (range)
	Cnt  int     // range: number of elements
	Via  string  // arr: the literal is bound to this variable by a let just before the loop
	Fn   string  // != "": the loop is the body of `let Fn = fn(P) { return for … }`, entered by the calls Fn(Args[i])
	P    string  // the function's parameter: the only enclosing variable its loop may mention
	Args []c08EX // one call per argument, emitted right after the definition
}

// c08EX is an element of a literal iterable, a range bound or a call argument: a constant, an enclosing
// variable, or an enclosing int variable +/* a constant.
type c08EX struct {
	Var string // "" = the constant C
	Op  string // "" | + | *
	C   c08Lit
}

func (e c08EX) Src() string {
	if e.Var == "" {
		return e.C.Src()
	}
	if e.Op == "" {
		return e.Var
	}
	return e.Var + " " + e.Op + " " + e.C.Src()
}

// Val: the value, when the generator knows the variable's.
func (e c08EX) Val(env map[string]c08Lit) (c08Lit, bool) {
	if e.Var == "" {
		return e.C, true
	}
	v, ok := env[e.Var]
	if !ok {
		return c08Lit{}, false
	}
	switch e.Op {
	case "":
		return v, true
	case "+":
		if !v.Str {
			return c08Lit{I: v.I + e.C.I}, true
		}
	case "*":
		if !v.Str {
			return c08Lit{I: v.I * e.C.I}, true
		}
	}
	panic("c08: arithmetic on a string variable " + e.Src())
}

func c08EXSrcs(xs []c08EX) string {
	ss := make([]string, len(xs))
	for i, x := range xs {
		ss[i] = x.Src()
	}
	return strings.Join(ss, ", ")
}

// IterSrc: the expression after "in".
func (s *c08Stmt) IterSrc() string {
	switch s.Dyn {
	case "arr":
		if s.Via != "" {
			return s.Via
		}
		return "[" + c08EXSrcs(s.EX) + "]"
	case "hash":
		if len(s.EX) == 0 {
			return "{}"
		}
		return `{"n": ` + s.EX[0].Src() + "}"
	case "range":
		return "range(" + c08EXSrcs(s.EX[:2]) + ")"
	}
	return s.Src
}

// c08El is one element of an inner loop as the unroller binds it: sources for the lets, and the values
// when the generator knows them.
type c08El struct {
	KSrc, VSrc string
	K, V       c08Lit
	VOk        bool
}

// Els: the elements the loop visits when entered with the enclosing variables as in env.
func (s *c08Stmt) Els(env map[string]c08Lit) []c08El {
	out := []c08El{}
	switch s.Dyn {
	case "arr":
		for j, x := range s.EX {
			v, ok := x.Val(env)
			out = append(out, c08El{KSrc: strconv.Itoa(j), K: c08Lit{I: j}, VSrc: x.Src(), V: v, VOk: ok})
		}
	case "hash":
		if len(s.EX) > 0 { // one entry at most: the order of a bigger hash literal is not the generator's to know
			v, ok := s.EX[0].Val(env)
			out = append(out, c08El{KSrc: `"n"`, K: c08Lit{Str: true, S: "n"}, VSrc: s.EX[0].Src(), V: v, VOk: ok})
		}
	case "range":
		lo, ok := s.EX[0].Val(env)
		if !ok || lo.Str {
			panic("c08: range bound not known: " + s.EX[0].Src())
		}
		for j := 0; j < s.Cnt; j++ {
			v := c08Lit{I: lo.I + j}
			out = append(out, c08El{KSrc: strconv.Itoa(j), K: c08Lit{I: j}, VSrc: v.Src(), V: v, VOk: true})
		}
	default:
		for j, e := range s.Elems {
			out = append(out, c08El{KSrc: strconv.Itoa(j), K: c08Lit{I: j}, VSrc: e.Src(), V: e, VOk: true})
		}
	}
	return out
}

func c08Emits(ss []*c08Stmt) bool {
	for _, s := range ss {
		switch s.T {
		case "text", "emit":
			return true
		case "for":
			if !s.Silent {
				return true
			}
		case "if":
			if c08Emits(s.Then) || c08Emits(s.Else) {
				return true
			}
			for _, e := range s.Elifs {
				if c08Emits(e.Body) {
					return true
				}
			}
		}
	}
	return false
}

// ---- printing the loop side

type c08Seg struct {
	T byte // 'c' code, 't' text, 'e' standalone <%= expr %>, 'o' code that must open a <%= tag
	S string
}

func c08ForHead(k, v, src string) string {
	if k == "" {
		return "for (" + v + ") in " + src + " {"
	}
	return "for (" + k + ", " + v + ") in " + src + " {"
}

func c08Segs(ss []*c08Stmt, out []c08Seg) []c08Seg {
	for _, s := range ss {
		switch s.T {
		case "text":
			out = append(out, c08Seg{'t', s.S})
		case "emit":
			out = append(out, c08Seg{'e', s.S})
		case "let":
			out = append(out, c08Seg{'c', "let " + s.N + " = " + s.S})
		case "fn":
			out = append(out, c08Seg{'c', "let " + s.N + " = fn(q) { return q }"})
		case "ctl":
			out = append(out, c08Seg{'c', s.S})
		case "ret":
			out = append(out, c08Seg{'c', "return " + s.S})
		case "if":
			t := byte('c')
			if s.Eq || c08Emits([]*c08Stmt{s}) {
				t = 'o'
			}
			out = append(out, c08Seg{t, "if (" + s.Cond.Src() + ") {"})
			out = c08Segs(s.Then, out)
			for _, e := range s.Elifs {
				out = append(out, c08Seg{'c', "} else if (" + e.Cond.Src() + ") {"})
				out = c08Segs(e.Body, out)
			}
			if s.HasElse {
				out = append(out, c08Seg{'c', "} else {"})
				out = c08Segs(s.Else, out)
			}
			out = append(out, c08Seg{'c', "}"})
		case "for":
			via := func() {
				if s.Via != "" {
					out = append(out, c08Seg{'c', "let " + s.Via + " = [" + c08EXSrcs(s.EX) + "]"})
				}
			}
			if s.Fn != "" {
				out = append(out, c08Seg{'c', "let " + s.Fn + " = fn(" + s.P + ") {"})
				via()
				out = append(out, c08Seg{'c', "return " + c08ForHead(s.K, s.V, s.IterSrc())})
				out = c08Segs(s.Body, out)
				out = append(out, c08Seg{'c', "}"}, c08Seg{'c', "}"})
				for _, a := range s.Args {
					out = append(out, c08Seg{'e', s.Fn + "(" + a.Src() + ")"})
				}
				continue
			}
			via()
			t := byte('o')
			if s.Silent {
				t = 'c'
			}
			out = append(out, c08Seg{t, c08ForHead(s.K, s.V, s.IterSrc())})
			out = c08Segs(s.Body, out)
			out = append(out, c08Seg{'c', "}"})
		}
	}
	return out
}

// c08Join prints segments. style: tags (one tag per segment), merged (adjacent code segments share a
// tag where merge(i) says so), onetag (everything in one tag; only legal when all segments are code).
func c08Join(segs []c08Seg, style, sep string, merge func() bool) string {
	var b strings.Builder
	open := false
	for i, s := range segs {
		switch s.T {
		case 't', 'e':
			if open {
				b.WriteString(" %>")
				open = false
			}
			if s.T == 't' {
				b.WriteString(s.S)
			} else {
				b.WriteString("<%= " + s.S + " %>")
			}
		case 'o':
			if open && style == "onetag" && i > 0 {
				b.WriteString(sep + s.S) // inside one tag an inner if/for is a plain statement
				continue
			}
			if open {
				b.WriteString(" %>")
			}
			b.WriteString("<%= " + s.S)
			open = true
		case 'c':
			if open && (style == "onetag" || (style == "merged" && merge())) {
				b.WriteString(sep + s.S)
				continue
			}
			if open {
				b.WriteString(" %>")
			}
			b.WriteString("<% " + s.S)
			open = true
		}
	}
	if open {
		b.WriteString(" %>")
	}
	return b.String()
}

// ---- unrolling (the expected side)

const (
	c08Normal = iota
	c08Break
	c08Continue
	c08Return
)

func c08CopyEnv(env map[string]c08Lit) map[string]c08Lit {
	m := make(map[string]c08Lit, len(env)+2)
	for k, v := range env {
		m[k] = v
	}
	return m
}

// c08Unroll renders stmts for ONE iteration as straight-line template text: inner loops are unrolled with
// their variables bound by let, the taken if-branch is kept (its condition stays and is evaluated by plush),
// control statements are resolved here.
func c08Unroll(ss []*c08Stmt, env map[string]c08Lit) (string, int) {
	var b strings.Builder
	for _, s := range ss {
		switch s.T {
		case "text":
			b.WriteString(s.S)
		case "emit":
			b.WriteString("<%= " + s.S + " %>")
		case "let":
			b.WriteString("<% let " + s.N + " = " + s.S + " %>")
			if v, ok := env[s.S]; ok {
				env[s.N] = v
			} else if n, err := strconv.Atoi(s.S); err == nil {
				env[s.N] = c08Lit{I: n}
			}
		case "fn":
			b.WriteString("<% let " + s.N + " = fn(q) { return q } %>")
		case "ctl":
			if s.S == "break" {
				return b.String(), c08Break
			}
			return b.String(), c08Continue
		case "ret":
			b.WriteString("<%= " + s.S + " %>")
			return b.String(), c08Return
		case "if":
			taken := -2 // -1 then, i elif, len else, -2 none
			if s.Cond.Eval(env) {
				taken = -1
			} else {
				for i, e := range s.Elifs {
					if e.Cond.Eval(env) {
						taken = i
						break
					}
				}
				if taken == -2 && s.HasElse {
					taken = len(s.Elifs)
				}
			}
			flag := c08Normal
			sub := func(body []*c08Stmt, on bool) {
				if on {
					t, f := c08Unroll(body, env)
					b.WriteString(t)
					flag = f
				}
			}
			b.WriteString("<%= if (" + s.Cond.Src() + ") { %>")
			sub(s.Then, taken == -1)
			for i, e := range s.Elifs {
				b.WriteString("<% } else if (" + e.Cond.Src() + ") { %>")
				sub(e.Body, taken == i)
			}
			if s.HasElse {
				b.WriteString("<% } else { %>")
				sub(s.Else, taken == len(s.Elifs))
			}
			b.WriteString("<% } %>")
			if flag != c08Normal {
				return b.String(), flag
			}
		case "for":
			if s.Silent {
				continue // no output, own scope, its control statements end only itself
			}
			// one entry of the loop: its elements are what the iterable evaluates to NOW
			enter := func(env map[string]c08Lit) {
				for _, e := range s.Els(env) {
					inner := c08CopyEnv(env)
					if s.K != "" {
						b.WriteString("<% let " + s.K + " = " + e.KSrc + " %>")
						inner[s.K] = e.K
					}
					b.WriteString("<% let " + s.V + " = " + e.VSrc + " %>")
					if e.VOk {
						inner[s.V] = e.V
					}
					t, f := c08Unroll(s.Body, inner)
					b.WriteString(t)
					if f == c08Break {
						break
					}
				}
			}
			if s.Fn == "" {
				enter(env)
				continue
			}
			for _, a := range s.Args { // one entry per call, the parameter bound to the argument
				b.WriteString("<% let " + s.P + " = " + a.Src() + " %>")
				fenv := map[string]c08Lit{}
				if v, ok := a.Val(env); ok {
					fenv[s.P] = v
				}
				enter(fenv)
			}
		}
	}
	return b.String(), c08Normal
}

// ---- features -> shape label

type c08Feat struct {
	brk, cont, ret, nest, ctlAfterLoop, ctlAfterFn, ctlInInner, els bool
	dyn, fnloop, nilel                                              bool
}

func c08Scan(ss []*c08Stmt, f *c08Feat, depth int, seenLoop, seenFn bool) (bool, bool) {
	for _, s := range ss {
		switch s.T {
		case "ctl":
			if s.S == "break" {
				f.brk = true
			} else {
				f.cont = true
			}
			if seenLoop {
				f.ctlAfterLoop = true
			}
			if seenFn {
				f.ctlAfterFn = true
			}
			if depth > 0 {
				f.ctlInInner = true
			}
		case "ret":
			f.ret = true
		case "fn":
			seenFn = true
		case "if":
			if s.HasElse || len(s.Elifs) > 0 {
				f.els = true
			}
			l, n := c08Scan(s.Then, f, depth, seenLoop, seenFn)
			for _, e := range s.Elifs {
				l2, n2 := c08Scan(e.Body, f, depth, seenLoop, seenFn)
				l, n = l || l2, n || n2
			}
			l2, n2 := c08Scan(s.Else, f, depth, seenLoop, seenFn)
			seenLoop, seenFn = l || l2, n || n2
		case "for":
			f.nest = true
			if s.Fn != "" {
				f.fnloop = true
			}
			for _, x := range s.EX {
				if s.Dyn != "" && x.Var != "" {
					f.dyn = true
				}
				if s.Dyn != "" && x.Var == "" && x.C.Nil {
					f.nilel = true
				}
			}
			for _, e := range s.Elems {
				if s.Dyn == "" && e.Nil {
					f.nilel = true
				}
			}
			c08Scan(s.Body, f, depth+1, false, false)
			seenLoop = true
			if s.Fn != "" {
				seenFn = true
			}
		}
	}
	return seenLoop, seenFn
}

func c08Shape(body []*c08Stmt, style, tail string) string {
	var f c08Feat
	c08Scan(body, &f, 0, false, false)
	d := "plain"
	switch {
	case f.ctlAfterFn:
		d = "ctl-after-fn"
	case f.ctlAfterLoop:
		d = "ctl-after-loop"
	case f.ctlInInner:
		d = "ctl-in-inner"
	case f.ret:
		d = "return"
	case f.brk:
		d = "break"
	case f.cont:
		d = "continue"
	case f.fnloop:
		d = "loop-in-fn"
	case f.dyn:
		d = "nested-dyn"
	case f.nest:
		d = "nested"
	}
	s := d
	if style != "tags" {
		s += ":" + style
	}
	if tail == "sametag" {
		s += ":stmt-after-brace"
	}
	return s
}

// ---- assembling a case

type c08Build struct {
	It    string
	K, V  string
	Body  []*c08Stmt
	Style string
	Sep   string
	Merge uint64 // 0: merge every adjacent pair of code segments; else seed of the per-junction choice
	Pre   int    // 0 none, 1 text, 2 a let tag
	Tail  int    // 0 none, 1 text, 2 <%= 7 %>, 3 a statement after the closing brace in the same tag
	Again bool   // the case also executes the parsed template twice (see c08Eval step 3)
}

func c08Assemble(bd *c08Build, it *c08Iterable) *c08Case {
	cs := &c08Case{It: bd.It, K: bd.K, V: bd.V, Again: bd.Again && (it.Class == "ordered" || it.Class == "map")}
	mr := NewRng(bd.Merge)
	merge := func() bool { return bd.Merge == 0 || mr.Chance(65) }
	segs := []c08Seg{{'o', c08ForHead(bd.K, bd.V, it.Expr)}}
	segs = c08Segs(bd.Body, segs)
	segs = append(segs, c08Seg{'c', "}"})
	tail := ""
	loop := ""
	if bd.Tail == 3 {
		// the statement after the loop's closing brace shares its tag
		j := c08Join(segs, bd.Style, bd.Sep, merge)
		loop = strings.TrimSuffix(j, " %>") + bd.Sep + "let after = 5 %><%= after %>"
		cs.Suf = "5"
		tail = "sametag"
	} else {
		loop = c08Join(segs, bd.Style, bd.Sep, merge)
		switch bd.Tail {
		case 1:
			loop += "|Z"
			cs.Suf = "|Z"
		case 2:
			loop += "<%= 7 %>"
			cs.Suf = "7"
		}
	}
	switch bd.Pre {
	case 1:
		loop = "A:" + loop
		cs.Pre = "A:"
	case 2:
		loop = "<% let before = 1 %>" + loop
	}
	cs.Tmpl = loop
	cs.Shape = c08Shape(bd.Body, bd.Style, tail)
	if it.Class == "ordered" || it.Class == "map" {
		for _, e := range it.Elems {
			env := map[string]c08Lit{}
			if l, ok := c08LitOf(e.K); ok && bd.K != "" {
				env[bd.K] = l
			}
			if l, ok := c08LitOf(e.V); ok && it.VKind != "" {
				env[bd.V] = l
			} else if it.VKind == "opq" {
				env[bd.V] = c08Lit{Opq: true}
			}
			t, f := c08Unroll(bd.Body, env)
			cs.Pieces = append(cs.Pieces, t)
			cs.Brk = append(cs.Brk, f == c08Break)
		}
	}
	return cs
}

// ---- part A: the grid

var c08OrderedKinds = []string{"ints", "strs", "anys", "bools", "f64s", "i64s", "strz", "htmls", "arr", "arrs", "parr", "pints", "pstrs",
	"lit", "lits", "range", "until", "iter", "iteri", "fiter", "viter", "between", "piter"}
var c08MapKinds = []string{"msi", "mis", "msa", "pmsi", "hash"}

// more element kinds, random part only: pointer elements, typed nil pointers among them, are elements like any other
var c08MoreKinds = []string{"ptrs", "anyiter", "msp"}

// masked kinds ("<kind>:<n>:<mask>", see c08MakeIterable): untyped nil elements / nil map values, NaN map keys,
// zero-valued elements. The first list is also part of the grid (one mask per length), all are in the random part.
var c08MaskedGrid = []string{"anyn", "errs", "litn", "msn", "mnan", "many", "zints"}
var c08MaskedMore = []string{"arrn", "panyn", "parrn", "hashn", "pmnan", "zstrs", "falsies", "ziter", "fziter"}

func c08Masked(kind string) bool {
	for _, k := range append(append([]string{}, c08MaskedGrid...), c08MaskedMore...) {
		if k == kind {
			return true
		}
	}
	return false
}

// c08GridMask: the marked positions the grid uses at each length (first, last, middle, two adjacent, both ends)
var c08GridMask = []int{0, 1, 2, 5, 6, 9, 18}

var c08NilKinds = []string{"nil-lit", "nil-fn", "nil-miss", "nilslice", "nilmap", "nilptr"}
var c08NonIter = []string{"x-int", "x-intlit", "x-str", "x-strlit", "x-bool", "x-float", "x-struct", "x-pstruct", "x-func", "x-stringer"}

func c08Name(kind string, n int) string {
	if kind == "range" || kind == "between" {
		return fmt.Sprintf("%s:%d:%d", kind, n, 3)
	}
	if c08Masked(kind) {
		return fmt.Sprintf("%s:%d:%d", kind, n, c08GridMask[n])
	}
	return fmt.Sprintf("%s:%d", kind, n)
}

func c08T(s string) *c08Stmt { return &c08Stmt{T: "text", S: s} }
func c08E(s string) *c08Stmt { return &c08Stmt{T: "emit", S: s} }

// c08EV emits a variable that may hold an untyped nil: bare it would be an unknown identifier, so it is
// emitted under its own truthiness and "~" stands for nil.
func c08EV(v string, nilable bool) *c08Stmt {
	if !nilable {
		return c08E(v)
	}
	return &c08Stmt{T: "if", Eq: true, Cond: &c08Cond{Op: "truthy", Var: v}, Then: []*c08Stmt{c08E(v)},
		HasElse: true, Else: []*c08Stmt{c08T("~")}}
}

// c08CtlStmt: a control statement, bare (c == nil) or inside an if.
func c08CtlStmt(ctl string, c *c08Cond, withText bool) *c08Stmt {
	return c08CtlStmtOf(ctl, c, withText, "v")
}

func c08CtlStmtOf(ctl string, c *c08Cond, withText bool, retVar string) *c08Stmt {
	st := &c08Stmt{T: "ctl", S: ctl}
	if ctl == "return" {
		st = &c08Stmt{T: "ret", S: retVar}
	}
	if c == nil {
		return st
	}
	if withText {
		return &c08Stmt{T: "if", Cond: c, Then: []*c08Stmt{c08T("!"), st}}
	}
	return &c08Stmt{T: "if", Cond: c, Then: []*c08Stmt{st}}
}

func c08Insert(base []*c08Stmt, p int, s *c08Stmt) []*c08Stmt {
	out := append([]*c08Stmt{}, base[:p]...)
	out = append(out, s)
	return append(out, base[p:]...)
}

func c08Grid(cfg Config, rep *Report) {
	maxN := cfg.N(4, 6)
	kinds := append(append(append([]string{}, c08OrderedKinds...), c08MapKinds...), c08MaskedGrid...)
	// an inner loop over a list with a nil element in the middle: three iterations each time it is entered
	innerNil := func() *c08Stmt {
		return &c08Stmt{T: "for", K: "a", V: "b", Src: "[1, nil, 3]", Elems: []c08Lit{{I: 1}, {Nil: true}, {I: 3}},
			Body: []*c08Stmt{c08T("("), c08E("a"), c08EV("b", true), c08T(")")}}
	}
	inner := func(silent bool) *c08Stmt {
		if silent {
			return &c08Stmt{T: "for", V: "b", Src: "[1]", Elems: []c08Lit{{I: 1}}, Silent: true}
		}
		return &c08Stmt{T: "for", K: "a", V: "b", Src: "[1, 2]", Elems: []c08Lit{{I: 1}, {I: 2}},
			Body: []*c08Stmt{c08T("("), c08E("b"), c08T(")")}}
	}
	// an inner loop whose iterable is built from the outer loop's variables: entered once per outer
	// iteration, it must visit what the iterable evaluates to THEN
	innerDyn := func(it *c08Iterable, n int) *c08Stmt {
		st := &c08Stmt{T: "for", K: "a", V: "b", Body: []*c08Stmt{c08T("("), c08E("a"), c08T("="), c08EV("b", it.Nilable), c08T(")")}}
		// a variable holding nil cannot be mentioned in a literal: where the outer value may be nil the inner
		// iterable has a nil of its own instead
		vx := c08EX{Var: "v"}
		if it.Nilable {
			vx = c08EX{C: c08Lit{Nil: true}}
		}
		switch {
		case n%3 == 1:
			st.Dyn, st.EX = "hash", []c08EX{vx}
		case n%3 == 2 && it.KKind == "int" && it.Class == "ordered":
			st.Dyn, st.Cnt, st.EX = "range", 2, []c08EX{{Var: "k"}, {Var: "k", Op: "+", C: c08Lit{I: 1}}}
		default:
			st.Dyn, st.EX = "arr", []c08EX{{Var: "k"}, vx, {C: c08Lit{I: 7}}}
			if n%2 == 1 {
				st.Via = "t"
			}
		}
		return st
	}
	// a loop in a function called twice per outer iteration: entered again and again with another argument
	innerFn := func(it *c08Iterable) *c08Stmt {
		if it.Nilable { // the value may be nil: it is no argument; the list has a nil element instead
			return &c08Stmt{T: "for", V: "b", Dyn: "arr", EX: []c08EX{{Var: "p"}, {C: c08Lit{Nil: true}}, {C: c08Lit{I: 7}}}, Fn: "g", P: "p",
				Args: []c08EX{{Var: "k"}, {C: c08Lit{I: 4}}}, Body: []*c08Stmt{c08T("<"), c08EV("b", true), c08T(">")}}
		}
		return &c08Stmt{T: "for", V: "b", Dyn: "arr", EX: []c08EX{{Var: "p"}, {C: c08Lit{I: 7}}}, Fn: "g", P: "p",
			Args: []c08EX{{Var: "k"}, {Var: "v"}}, Body: []*c08Stmt{c08T("<"), c08E("b"), c08T(">")}}
	}
	run := func(bd *c08Build, it *c08Iterable) {
		if rep.Full() {
			return
		}
		c08RunBuild(rep, bd)
	}
	cnt := 0
	for _, kind := range kinds {
		for n := 0; n <= maxN; n++ {
			name := c08Name(kind, n)
			it, err := c08MakeIterable(name)
			if err != nil {
				panic(err)
			}
			// firing conditions: none (bare), key == each key, plus one on the value when known
			if c08Masked(kind) && (n == 0 || n == maxN) {
				continue // nothing to mark in an empty one; one length less than the others (run time)
			}
			conds := []*c08Cond{nil}
			for _, e := range it.Elems {
				if l, ok := c08LitOf(e.K); ok && it.KKind != "" { // keys the generator cannot write (float, NaN): no condition
					conds = append(conds, &c08Cond{Op: "cmp", Var: "k", Cmp: "==", Lit: l})
				}
			}
			nk := len(conds) - 1 // conditions on the key
			if l, ok := c08LitOf(it.Elems0V(n - 1)); ok && it.VKind != "" && it.VKind != "opq" && n > 1 {
				conds = append(conds, &c08Cond{Op: "cmp", Var: "v", Cmp: "==", Lit: l})
			}
			if it.Nilable && n > 0 { // what is nil and what is not
				conds = append(conds, &c08Cond{Op: "cmp", Var: "v", Cmp: "==", Lit: c08Lit{Nil: true}}, &c08Cond{Op: "truthy", Var: "v"})
			}
			retVar := "v"
			if it.Nilable {
				retVar = "k" // `return v` with v nil is an unknown identifier
			}
			bases := [][]*c08Stmt{
				{c08T("["), c08E("k"), c08T(":"), c08EV("v", it.Nilable), c08T("]")},
				{c08EV("v", it.Nilable), inner(false), c08T(";")},
				{c08E("k"), inner(true), &c08Stmt{T: "fn", N: "g"}, c08T(",")},
				{c08E("k"), innerDyn(it, n), c08T(";")},
				{c08T("."), innerFn(it), c08T(",")},
				{c08E("k"), innerNil(), c08T(";")},
			}
			for bi, base := range bases {
				for p := 0; p <= len(base); p++ {
					for _, ctl := range []string{"break", "continue", "return"} {
						for ci, c := range conds {
							if ctl == "return" && (ci > 1 || bi > 0) {
								continue
							}
							if bi >= 3 && ci > 1 && ci < nk {
								continue // re-entered inner loops: bare, at the first key, at the last key, on the value
							}
							if bi == 5 && ci > 1 {
								continue // the inner list with a nil: bare and at the first key
							}
							cnt++
							style := []string{"tags", "merged"}[cnt%2]
							bd := &c08Build{It: name, K: "k", V: "v", Body: c08Insert(base, p, c08CtlStmtOf(ctl, c, cnt%3 == 0, retVar)),
								Style: style, Sep: []string{"\n", " "}[(cnt/2)%2], Tail: cnt % 4, Pre: cnt % 3, Again: cnt%5 == 0}
							run(bd, it)
						}
					}
				}
			}
			// one-tag form: only return emits; control before/after a silent inner loop and a fn literal
			one := []*c08Stmt{{T: "let", N: "w", S: retVar}, inner(true), {T: "fn", N: "g"}, {T: "ret", S: "w"}}
			for p := 0; p < len(one); p++ {
				for _, ctl := range []string{"break", "continue"} {
					for _, c := range conds {
						cnt++
						bd := &c08Build{It: name, K: "k", V: "v", Body: c08Insert(one, p, c08CtlStmt(ctl, c, false)),
							Style: "onetag", Sep: []string{"\n", " "}[cnt%2], Tail: []int{0, 3, 1, 2}[cnt%4], Pre: cnt % 3}
						run(bd, it)
					}
				}
			}
		}
	}
	// nil and non-iterable values, with and without control statements in the (never run) body
	for _, kind := range append(append([]string{}, c08NilKinds...), c08NonIter...) {
		it, err := c08MakeIterable(kind)
		if err != nil {
			panic(err)
		}
		for v := 0; v < 12; v++ {
			body := []*c08Stmt{c08T("["), c08E("v"), c08T("]")}
			if v%3 == 1 {
				body = c08Insert(body, v%4, c08CtlStmt("break", &c08Cond{Op: "cmp", Var: "k", Cmp: "==", Lit: c08Lit{I: 0}}, false))
			} else if v%3 == 2 {
				body = c08Insert(body, v%4, c08CtlStmt("continue", nil, false))
			}
			bd := &c08Build{It: kind, K: "k", V: "v", Body: body, Style: []string{"tags", "merged"}[v%2], Sep: "\n",
				Tail: v % 4, Pre: v % 3}
			if v >= 8 {
				bd.K = ""
				bd.Body = []*c08Stmt{c08T("x")}
			}
			run(bd, it)
		}
	}
}

// ---- part B: random bodies

type c08Gen struct {
	r      *Rng
	names  int
	onetag bool
}

func (g *c08Gen) fresh(p string) string {
	g.names++
	return p + strconv.Itoa(g.names)
}

type c08Scope struct {
	vars  []string            // every variable that can be mentioned bare here (loop variables, lets): never nil
	known map[string][]c08Lit // variables the generator can compare, with candidate literals near their values
	nilv  []string            // variables that may hold an untyped nil: conditions only (all of them are in known)
}

// typed: whether the generator knows the type of v's non-nil values (and whether it is string).
func (s *c08Scope) typed(v string) (str bool, ok bool) {
	for _, l := range s.known[v] {
		if !l.Nil && !l.Opq {
			return l.Str, true
		}
	}
	return false, false
}

func (s *c08Scope) isNilv(v string) bool {
	for _, n := range s.nilv {
		if n == v {
			return true
		}
	}
	return false
}

func (s *c08Scope) clone() *c08Scope {
	n := &c08Scope{vars: append([]string{}, s.vars...), known: map[string][]c08Lit{}, nilv: append([]string{}, s.nilv...)}
	for k, v := range s.known {
		n.known[k] = v
	}
	return n
}

func (s *c08Scope) knownNames() []string {
	out := []string{}
	for _, v := range s.vars {
		if _, ok := s.known[v]; ok {
			out = append(out, v)
		}
	}
	return out
}

func (g *c08Gen) cond(sc *c08Scope, depth int) *c08Cond {
	r := g.r
	kn := append(sc.knownNames(), sc.nilv...)
	if len(kn) == 0 || r.Chance(6) {
		return &c08Cond{Op: "const", B: r.Chance(60)}
	}
	if depth < 1 && r.Chance(15) {
		op := "and"
		if r.Bool() {
			op = "or"
		}
		return &c08Cond{Op: op, L: g.cond(sc, depth+1), R: g.cond(sc, depth+1)}
	}
	v := Pick(r, kn)
	nilv := sc.isNilv(v)
	if (nilv && r.Chance(35)) || (!nilv && r.Chance(4)) {
		return &c08Cond{Op: "truthy", Var: v}
	}
	lit := Pick(r, sc.known[v])
	if nilv && r.Chance(30) {
		lit = c08Lit{Nil: true}
	}
	cmps := []string{"==", "==", "!=", "<", ">", "<=", ">="}
	if lit.Str || lit.Nil || nilv { // nil is neither less nor more than anything
		cmps = []string{"==", "==", "!="}
	}
	return &c08Cond{Op: "cmp", Var: v, Cmp: Pick(r, cmps), Lit: lit}
}

// block generates statements. quiet: no output allowed (body of a silent inner loop or one-tag form, where
// only `return` emits). inLoops: nesting depth of loops (>=1).
func (g *c08Gen) block(sc *c08Scope, depth, budget int, quiet bool) []*c08Stmt {
	r := g.r
	n := r.Range(1, budget)
	out := []*c08Stmt{}
	for i := 0; i < n; i++ {
		w := r.Intn(100)
		switch {
		case w < 22 && !quiet:
			out = append(out, c08T(Pick(r, []string{"[", "]", ".", "-", "x", " ", "\n"})))
		case w < 40 && !quiet:
			out = append(out, c08E(Pick(r, sc.vars)))
		case w < 40:
			out = append(out, &c08Stmt{T: "let", N: g.fresh("w"), S: Pick(r, sc.vars)})
		case w < 47:
			nm := g.fresh("w")
			src := Pick(r, sc.vars)
			out = append(out, &c08Stmt{T: "let", N: nm, S: src})
			sc.vars = append(sc.vars, nm)
			if l, ok := sc.known[src]; ok {
				sc.known[nm] = l
			}
		case w < 51:
			out = append(out, &c08Stmt{T: "fn", N: g.fresh("g")})
		case w < 61:
			out = append(out, &c08Stmt{T: "ctl", S: Pick(r, []string{"break", "continue"})})
			if r.Chance(70) {
				return out // mostly no dead code after a bare control statement
			}
		case w < 65 && (!quiet || g.onetag):
			out = append(out, &c08Stmt{T: "ret", S: Pick(r, sc.vars)})
			if r.Chance(70) {
				return out
			}
		case w < 86 && depth < 3:
			st := &c08Stmt{T: "if", Cond: g.cond(sc, 0), Eq: r.Bool()}
			tsc := sc
			if c := st.Cond; sc.isNilv(c.Var) && (c.Op == "truthy" || (c.Op == "cmp" && c.Cmp == "!=" && c.Lit.Nil)) {
				// under `if (x)` / `if (x != nil)` the variable is not nil: it can be mentioned bare
				tsc = sc.clone()
				tsc.vars = append(tsc.vars, c.Var)
			}
			st.Then = g.ifBody(tsc, depth, quiet)
			if r.Chance(25) {
				st.Elifs = append(st.Elifs, c08Elif{g.cond(sc, 0), g.ifBody(sc, depth, quiet)})
			}
			if r.Chance(35) {
				st.HasElse = true
				st.Else = g.ifBody(sc, depth, quiet)
			}
			if g.onetag {
				st.Eq = false
			}
			out = append(out, st)
		case depth < 3:
			out = append(out, g.loop(sc, depth, quiet))
		default:
			if !quiet {
				out = append(out, c08E(Pick(r, sc.vars)))
			}
		}
	}
	return out
}

// ifBody: an if-block is not a scope in plush, but names bound in it are never used outside it here.
func (g *c08Gen) ifBody(sc *c08Scope, depth int, quiet bool) []*c08Stmt {
	r := g.r
	if r.Chance(45) { // the classic shape: just a control statement, sometimes after some output
		out := []*c08Stmt{}
		if !quiet && r.Chance(40) {
			out = append(out, c08T("!"))
		}
		return append(out, &c08Stmt{T: "ctl", S: Pick(r, []string{"break", "continue"})})
	}
	return g.block(sc.clone(), depth+1, 3, quiet)
}

// exprs: n expressions over the variables of sc, for the elements of a literal iterable or the arguments of
// calls. Mostly of ONE type (int or string) and over variables whose values the generator knows, so that the
// variable they are bound to can be compared in conditions (cands: literals near the values it will take);
// sometimes over any variable in scope (a value of unknown type: emitted, never compared).
func (g *c08Gen) exprs(sc *c08Scope, n int) (xs []c08EX, cands []c08Lit, known bool) {
	r := g.r
	if len(sc.vars) > 0 && r.Chance(20) {
		for i := 0; i < n; i++ {
			if r.Chance(25) {
				xs = append(xs, c08EX{C: c08Lit{I: r.Range(1, 9)}})
			} else {
				xs = append(xs, c08EX{Var: Pick(r, sc.vars)})
			}
		}
		return xs, nil, false
	}
	ints, strs := []string{}, []string{}
	for _, v := range sc.knownNames() {
		if str, ok := sc.typed(v); !ok {
			continue
		} else if str {
			strs = append(strs, v)
		} else {
			ints = append(ints, v)
		}
	}
	str := len(strs) > 0 && (len(ints) == 0 || r.Chance(35))
	vars := ints
	if str {
		vars = strs
	}
	for i := 0; i < n; i++ {
		if len(vars) == 0 || r.Chance(25) {
			c := c08Lit{I: r.Range(1, 9)}
			if str {
				c = c08Lit{Str: true, S: Pick(r, c08Letters)}
			}
			xs = append(xs, c08EX{C: c})
			cands = append(cands, c)
			continue
		}
		x := c08EX{Var: Pick(r, vars)}
		if !str && r.Chance(40) {
			x.Op, x.C = "+", c08Lit{I: r.Range(1, 3)}
			if r.Chance(40) {
				x.Op, x.C = "*", c08Lit{I: Pick(r, []int{2, 10})}
			}
		}
		xs = append(xs, x)
		for _, l := range sc.known[x.Var] {
			if l.Nil || l.Opq {
				continue // where the variable can be mentioned it is not nil
			}
			v, _ := x.Val(map[string]c08Lit{x.Var: l})
			cands = append(cands, v)
		}
	}
	return xs, cands, true
}

func (g *c08Gen) loop(sc *c08Scope, depth int, quiet bool) *c08Stmt {
	r := g.r
	st := &c08Stmt{T: "for", V: g.fresh("b")}
	if r.Chance(60) {
		st.K = g.fresh("a")
	}
	st.Silent = quiet || r.Chance(20)
	// the loop may live in a function that is called several times: the same loop entered again and again,
	// with another argument each time
	if !st.Silent && !g.onetag && r.Chance(18) {
		st.Fn, st.P = g.fresh("g"), g.fresh("p")
		args, cands, known := g.exprs(sc, r.Range(1, 2))
		st.Args = args
		sc = &c08Scope{vars: []string{st.P}, known: map[string][]c08Lit{}}
		if known {
			sc.known[st.P] = cands
		}
	}
	var vcands []c08Lit
	vknown := true
	vnil := false // the value variable may hold an untyped nil
	n := r.Intn(4)
	mode := r.Intn(100)
	ints := []string{}
	for _, v := range sc.knownNames() {
		if str, ok := sc.typed(v); ok && !str {
			ints = append(ints, v)
		}
	}
	if mode >= 82 && len(ints) == 0 {
		mode = 50
	}
	switch {
	case mode < 40: // a constant iterable
		switch r.Intn(5) {
		case 0:
			st.Src = "ys"
			for _, x := range []int{1, 2, 3} {
				st.Elems = append(st.Elems, c08Lit{I: x})
			}
		case 1:
			st.Src = "zs"
			st.Elems = []c08Lit{{Str: true, S: "p"}, {Str: true, S: "q"}}
		case 2:
			a := r.Range(1, 3) // no negative literals: unary minus is not C08's business
			st.Src = fmt.Sprintf("range(%d, %d)", a, a+n-1)
			for i := 0; i < n; i++ {
				st.Elems = append(st.Elems, c08Lit{I: a + i})
			}
		case 3:
			ss := []string{}
			for i := 0; i < n; i++ {
				st.Elems = append(st.Elems, c08Lit{Str: true, S: c08Letters[i+3]})
				ss = append(ss, strconv.Quote(c08Letters[i+3]))
			}
			st.Src = "[" + strings.Join(ss, ", ") + "]"
		default:
			ss := []string{}
			for i := 0; i < n; i++ {
				l := c08Lit{I: 20 + i}
				if r.Chance(30) { // an untyped nil among the elements: an element like any other
					l, vnil = c08Lit{Nil: true}, true
				}
				st.Elems = append(st.Elems, l)
				ss = append(ss, l.Src())
			}
			st.Src = "[" + strings.Join(ss, ", ") + "]"
		}
		vcands = st.Elems
	case mode < 72: // an array literal over the enclosing variables, in place or bound by a let first
		st.Dyn = "arr"
		st.EX, vcands, vknown = g.exprs(sc, r.Intn(4))
		if vknown && r.Chance(25) { // a nil element somewhere in the literal
			at := r.Intn(len(st.EX) + 1)
			ex := append(append(append([]c08EX{}, st.EX[:at]...), c08EX{C: c08Lit{Nil: true}}), st.EX[at:]...)
			st.EX, vcands, vnil = ex, append(vcands, c08Lit{Nil: true}), true
		}
		if r.Chance(25) {
			st.Via = g.fresh("t")
		}
	case mode < 82: // a hash literal with at most one entry (no order to know)
		st.Dyn = "hash"
		st.EX, vcands, vknown = g.exprs(sc, r.Intn(2))
		if vknown && len(st.EX) == 1 && r.Chance(20) { // an entry whose value is nil is an entry
			st.EX, vcands, vnil = []c08EX{{C: c08Lit{Nil: true}}}, []c08Lit{{Nil: true}}, true
		}
		if st.K != "" {
			sc = sc.clone()
			sc.known[st.K] = []c08Lit{{Str: true, S: "n"}, {Str: true, S: "m"}}
		}
	default: // range(x + c, x + c + n - 1) from an enclosing int variable
		st.Dyn, st.Cnt = "range", n
		c := r.Intn(3)
		if n == 0 && c == 0 {
			c = 1
		}
		v := Pick(r, ints)
		mk := func(c int) c08EX {
			if c == 0 {
				return c08EX{Var: v}
			}
			return c08EX{Var: v, Op: "+", C: c08Lit{I: c}}
		}
		st.EX = []c08EX{mk(c), mk(c + n - 1)}
		for _, l := range sc.known[v] {
			if l.Nil || l.Opq {
				continue
			}
			for j := 0; j < n; j++ {
				vcands = append(vcands, c08Lit{I: l.I + c + j})
			}
		}
	}
	in := sc.clone()
	if st.K != "" {
		in.vars = append(in.vars, st.K)
		if st.Dyn != "hash" {
			cnt := len(st.Elems)
			if st.Dyn == "arr" {
				cnt = len(st.EX)
			} else if st.Dyn == "range" {
				cnt = st.Cnt
			}
			ks := []c08Lit{}
			for i := 0; i <= cnt; i++ {
				ks = append(ks, c08Lit{I: i})
			}
			in.known[st.K] = ks
		}
	}
	if vnil {
		in.nilv = append(in.nilv, st.V) // mentioned in conditions only
	} else {
		in.vars = append(in.vars, st.V)
	}
	if vknown && len(vcands) > 0 {
		in.known[st.V] = vcands
	}
	st.Body = g.block(in, depth+1, 4, st.Silent)
	return st
}

func c08Random(cfg Config, rep *Report, r *Rng) {
	all := append(append(append([]string{}, c08OrderedKinds...), c08MapKinds...), c08MoreKinds...)
	all = append(append(all, c08MaskedGrid...), c08MaskedMore...)
	total := cfg.N(25000, 400000)
	for i := 0; i < total && !rep.Full(); i++ {
		kind := Pick(r, all)
		n := r.Intn(7)
		if i < total/10 {
			n = r.Intn(3) // small cases first: the report keeps the shortest failing case per family
		}
		name := c08Name(kind, n)
		if kind == "range" || kind == "between" {
			name = fmt.Sprintf("%s:%d:%d", kind, n, r.Range(1, 5))
		}
		if c08Masked(kind) { // any subset of the positions marked, mostly a non-empty one
			if n == 0 {
				n = 1 + r.Intn(3)
			}
			m := r.Intn(1 << uint(n))
			if m == 0 {
				m = 1 << uint(r.Intn(n))
			}
			name = fmt.Sprintf("%s:%d:%d", kind, n, m)
		}
		it, err := c08MakeIterable(name)
		if err != nil {
			panic(err)
		}
		g := &c08Gen{r: r}
		style := Pick(r, []string{"tags", "tags", "merged", "merged", "onetag"})
		g.onetag = style == "onetag"
		bd := &c08Build{It: name, V: "v", Style: style, Sep: Pick(r, []string{"\n", " ", "\n  "}),
			Merge: r.Next() | 1, Tail: r.Intn(4), Pre: r.Intn(3), Again: r.Chance(20)}
		sc := &c08Scope{known: map[string][]c08Lit{}}
		if r.Chance(80) || it.Nilable { // (a body must have something it can mention bare)
			bd.K = "k"
			sc.vars = append(sc.vars, "k")
			for _, e := range it.Elems {
				if l, ok := c08LitOf(e.K); ok && it.KKind != "" {
					sc.known["k"] = append(sc.known["k"], l)
				}
			}
			if it.KKind == "int" {
				sc.known["k"] = append(sc.known["k"], c08Lit{I: len(it.Elems)})
			}
		}
		if it.Nilable {
			sc.nilv = append(sc.nilv, "v")
		} else {
			sc.vars = append(sc.vars, "v")
		}
		if it.VKind != "" {
			for _, e := range it.Elems {
				if l, ok := c08LitOf(e.V); ok {
					sc.known["v"] = append(sc.known["v"], l)
				}
			}
		}
		if it.Nilable { // whatever the mask, nil is a value to ask about
			sc.known["v"] = append(sc.known["v"], c08Lit{Nil: true})
		}
		for k, v := range sc.known {
			if len(v) == 0 {
				delete(sc.known, k)
			}
		}
		budget := 5
		if i < total/10 {
			budget = 2
		}
		bd.Body = g.block(sc, 0, budget, g.onetag)
		c08RunBuild(rep, bd)
	}
}

// ---- running a generated case, shrinking it when it fails

func c08Try(bd *c08Build) (*c08Case, *c08Iterable, c08Verdict) {
	it, err := c08MakeIterable(bd.It)
	if err != nil {
		panic(err)
	}
	cs := c08Assemble(bd, it)
	return cs, it, c08Eval(cs, it)
}

// c08Variants: one-step simplifications of a body (delete a statement; replace an if by one branch;
// replace a block inside an if/for by a simplification of it).
func c08Variants(body []*c08Stmt) [][]*c08Stmt {
	out := [][]*c08Stmt{}
	repl := func(i int, with []*c08Stmt) []*c08Stmt {
		n := append([]*c08Stmt{}, body[:i]...)
		n = append(n, with...)
		return append(n, body[i+1:]...)
	}
	for i, s := range body {
		out = append(out, repl(i, nil))
		switch s.T {
		case "if":
			out = append(out, repl(i, s.Then))
			if len(s.Elifs) > 0 || s.HasElse {
				c := *s
				c.Elifs, c.Else, c.HasElse = nil, nil, false
				out = append(out, repl(i, []*c08Stmt{&c}))
			}
			for _, v := range c08Variants(s.Then) {
				c := *s
				c.Then = v
				out = append(out, repl(i, []*c08Stmt{&c}))
			}
			for _, v := range c08Variants(s.Else) {
				c := *s
				c.Else = v
				out = append(out, repl(i, []*c08Stmt{&c}))
			}
			if c := s.Cond; c.Op == "and" || c.Op == "or" {
				for _, sub := range []*c08Cond{c.L, c.R} {
					cp := *s
					cp.Cond = sub
					out = append(out, repl(i, []*c08Stmt{&cp}))
				}
			}
		case "for":
			for _, v := range c08Variants(s.Body) {
				c := *s
				c.Body = v
				out = append(out, repl(i, []*c08Stmt{&c}))
			}
			if len(s.Args) > 1 { // fewer calls
				c := *s
				c.Args = s.Args[:len(s.Args)-1]
				out = append(out, repl(i, []*c08Stmt{&c}))
				c2 := *s
				c2.Args = s.Args[1:]
				out = append(out, repl(i, []*c08Stmt{&c2}))
			}
			if s.Via != "" { // the literal in place
				c := *s
				c.Via = ""
				out = append(out, repl(i, []*c08Stmt{&c}))
			}
			if s.Dyn == "arr" && len(s.EX) > 1 { // fewer elements
				c := *s
				c.EX = s.EX[:len(s.EX)-1]
				out = append(out, repl(i, []*c08Stmt{&c}))
			}
		}
	}
	return out
}

// c08Valid: every variable a body mentions is bound before (shrinking must not delete a binding that is
// still used: the generator's knowledge of the conditions would no longer be plush's).
func c08Valid(body []*c08Stmt, def map[string]bool) bool {
	cp := func() map[string]bool {
		m := map[string]bool{}
		for k := range def {
			m[k] = true
		}
		return m
	}
	var condOK func(c *c08Cond) bool
	condOK = func(c *c08Cond) bool {
		switch c.Op {
		case "const":
			return true
		case "and", "or":
			return condOK(c.L) && condOK(c.R)
		}
		return def[c.Var]
	}
	for _, s := range body {
		switch s.T {
		case "emit", "ret":
			if !def[s.S] {
				return false
			}
		case "let":
			if !def[s.S] {
				return false
			}
			def[s.N] = true
		case "if":
			if !condOK(s.Cond) || !c08Valid(s.Then, cp()) || !c08Valid(s.Else, cp()) {
				return false
			}
			for _, e := range s.Elifs {
				if !condOK(e.Cond) || !c08Valid(e.Body, cp()) {
					return false
				}
			}
		case "for":
			in := cp()
			if s.Fn != "" { // a loop in a function mentions its parameter only
				for _, a := range s.Args {
					if a.Var != "" && !def[a.Var] {
						return false
					}
				}
				in = map[string]bool{s.P: true}
			}
			if s.Dyn != "" {
				for _, x := range s.EX {
					if x.Var != "" && !in[x.Var] {
						return false
					}
				}
			}
			if s.Via != "" {
				def[s.Via] = true
			}
			in[s.K], in[s.V] = true, true
			if !c08Valid(s.Body, in) {
				return false
			}
		}
	}
	return true
}

func c08RunBuild(rep *Report, bd *c08Build) {
	cs, it, v := c08Try(bd)
	var ft c08Feat
	c08Scan(bd.Body, &ft, 0, false, false)
	if ft.dyn {
		rep.Tag("inner:iterable-from-enclosing-variables")
	}
	if ft.fnloop {
		rep.Tag("inner:loop-in-fn-called-repeatedly")
	}
	if ft.nilel {
		rep.Tag("inner:iterable-with-nil-element")
	}
	if v.Kind == "" || rep.Dist["shrunk"] >= 300 {
		c08Record(rep, cs, it, v)
		return
	}
	// shrink: keep any simplification that fails the same way
	rep.Tag("shrunk")
	same := func(w c08Verdict) bool { return w.Kind == v.Kind && w.Type == v.Type }
	cur := *bd
	adopt := func(cand c08Build) bool {
		if !c08Valid(cand.Body, map[string]bool{cand.K: true, cand.V: true}) {
			return false
		}
		c2, i2, w := c08Try(&cand)
		if same(w) {
			cur, cs, it, v = cand, c2, i2, w
			return true
		}
		return false
	}
	for budget := 0; budget < 200; budget++ {
		progress := false
		if cur.Pre != 0 {
			c := cur
			c.Pre = 0
			progress = adopt(c) || progress
		}
		if cur.Tail != 0 {
			c := cur
			c.Tail = 0
			progress = adopt(c) || progress
		}
		if cur.Style != "tags" {
			c := cur
			c.Style = "tags"
			if cur.Style == "onetag" {
				c.Style = "merged"
				c.Merge = 0
			}
			progress = adopt(c) || progress
		}
		if parts := strings.Split(cur.It, ":"); len(parts) >= 2 {
			if n, _ := strconv.Atoi(parts[1]); n > 0 {
				c := cur
				parts[1] = strconv.Itoa(n - 1)
				c.It = strings.Join(parts, ":")
				progress = adopt(c) || progress
			}
		}
		for _, b := range c08Variants(cur.Body) {
			c := cur
			c.Body = b
			if adopt(c) {
				progress = true
				break
			}
		}
		if !progress {
			break
		}
	}
	c08Record(rep, cs, it, v)
}
