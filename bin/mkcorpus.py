#!/usr/bin/env python3
"""Rebuilds /verif/corpus/<pid>.jsonl from the replays kept next to the seeded changes (seeded/*/replay-<pid>.json):
up to 4 failing cases per seeded change, one per failure family (kind, site). bin/check runs them first."""
import glob, json, os, collections
VERIF = os.path.dirname(os.path.dirname(os.path.abspath(__file__)))
out = collections.defaultdict(list)
for rp in sorted(glob.glob(os.path.join(VERIF, "seeded", "*", "replay-*.json"))):
    r = json.load(open(rp))
    pid = r.get("property")
    seen = set()
    for f in r.get("all_failures", []) or ([r["failure"]] if r.get("failure") else []):
        key = (f.get("kind"), f.get("site"))
        if key in seen or not f.get("case"):
            continue
        seen.add(key)
        out[pid].append({"case": f["case"], "from": os.path.basename(os.path.dirname(rp)), "kind": f.get("kind"), "site": f.get("site")})
        if len(seen) >= 4:
            break
os.makedirs(os.path.join(VERIF, "corpus"), exist_ok=True)
for pid, cases in sorted(out.items()):
    with open(os.path.join(VERIF, "corpus", pid + ".jsonl"), "w") as fh:
        for c in cases:
            fh.write(json.dumps(c) + "\n")
    print(pid, len(cases))
