#!/usr/bin/env python3
"""re-insert the output of bin/seedtable.py between the SEEDTABLE markers of DESIGN.md"""
import subprocess, os
V = os.path.dirname(os.path.dirname(os.path.abspath(__file__)))
t = subprocess.run(["python3", os.path.join(V, "bin", "seedtable.py")], stdout=subprocess.PIPE).stdout.decode()
t = t.replace("| C15-b | C15 | compiler.go |", "| C15-b (neutralised) | C15 | compiler.go |").rstrip("\n")
p = os.path.join(V, "DESIGN.md")
s = open(p).read()
a = s.index("<!-- SEEDTABLE-BEGIN -->") + len("<!-- SEEDTABLE-BEGIN -->\n")
b = s.index("\n<!-- SEEDTABLE-END -->")
open(p, "w").write(s[:a] + t + s[b:])
print("table rows:", t.count("\n") - 1)
