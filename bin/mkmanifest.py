#!/usr/bin/env python3
"""Regenerates /verif/MANIFEST.json from registry.json and the per-property claims below."""
import json, os

VERIF = os.path.dirname(os.path.dirname(os.path.abspath(__file__)))
reg = json.load(open(os.path.join(VERIF, "registry.json")))

CLAIM = {
 "C01": "Lean theorems over the model of the output sink: the generated table of compiler.write's arms (string/bool escaped and placed before Stringer, template.HTML verbatim, slices and return wrappers recurse), htmlEscape emits no raw < > ' \" for every byte string, and every nesting of blocks/loops/return wrappers around a Go string reaches the output only as escaped chunks. Partial: provenance through the whole evaluator (all plumbing routes) is tied by correspondence and the oracle, not by one theorem.",
 "C02": "Lean theorems over the model of compile/evalStatement: literal text is appended verbatim, an output tag appends what the sink writes, code tags / let / comments contribute nothing at top level and inside blocks; and an END-TO-END theorem composing the lexer, parser and evaluator models: every byte string without `<%` and without NUL renders to itself (C02_tagless_renders_to_itself) with no side effect on the evaluator state, parsed as exactly one literal statement. The text scanner with its two escapes and string literals are modelled byte for byte and tied by exhaustive enumeration of short texts; the scanner's totality is Theorem A (C03). Partial: the escape laws for texts that DO contain `\<%` are tied by the exhaustive lex-text stream, not by a theorem.",
 "C03": "Lean theorems over the model of lexer+parser: THEOREM A — for every byte string the scanner never slices out of range, every NextToken consumes a byte unless the scan is over, the token stream ends in one constant EOF token, and the parser model reads exactly that unbounded stream; THEOREM B — for every token array ending in EOF (hence every source text) the parser model returns a program and an error list: its recursion budget is never exhausted (outOfFuel, the stand-in for a hang / unbounded recursion, is unreachable) because every cycle of the 20 mutually recursive parse functions consumes a token. The model is tied to /repo by the regenerated tables (ParseFns, Keywords, CharClasses, Precedences) and by exhaustive/random differential runs of the real lexer and parser against the compiled model (kind projection: OK/ERR vs PANIC/HANG).",
 "C04": "Lean theorems: (1) for EVERY operator and pair of operand values, every (container × index) read and every (container × index × value) write, the model of the evaluator's dispatch yields a value or an error, never a crash site (case analysis over all value constructors by a compositional NoCrash calculus); (2) EVALUATOR-WIDE: over all 27 functions of the evaluator\'s mutual recursion (every program, state and fuel) a crash site is reachable only at three named dereferences of a missing AST child — not in dispatch, indexing, calls, binding, loops, helpers, partials, the sink or (Theorem B) the parser; (3) the parser side: for every source text, a program that parses without a syntax error contains no nil child that the evaluator would dereference (the only three crash sites left in the evaluator model) — a partial-correctness calculus over the 20 parse functions shows errors are only added and a bad node implies an added error. Partial: struct/method/func values and the built-in helpers' own panics are decided by the exhaustive oracle matrices (incl. value shapes inside kinds) only; that closures stored in contexts keep well-formed bodies is argued (they are sub-trees of error-free programs), not proved.",
 "C05": "Lean theorems over the generated tolerance facts (tolerated operators and sites are exactly the licensed ones, guarded by the *ErrUnknownIdentifier assertion) and over the evaluator model: a non-tolerated operand/condition/element/statement error is the result of the enclosing construct and of compile, with the cause chain kept and the output dropped.",
 "C06": "Lean theorems over the TRANSLATED precedence table and operator tables (documented order, registration, each operator's meaning per operand type, division by zero, type mismatch, short-circuit) and THEOREM C — the Pratt round trip on the parser model: every expression tree over atoms, registered binary operators and prefix operators (! -), printed with the minimal parentheses that the precedence table and LEFT associativity require, is parsed back to exactly that tree (any depth, any operator mix), with grouping corollaries (equal levels nest left, tighter operators first, right-nested trees need parentheses). Partial: call / index inside the round trip and the evaluator-wide equality with the reference evaluator are tied by exhaustive correspondence and the oracle; bool-left coercion is a known finding.",
 "C07": "Lean theorems: isTruthy (generated from compiler.go) equals the property's falsy list on every value; !, if, else-if use it with the unknown-identifier-as-nil rule; for chains of ANY length the block of the first truthy condition is the result and later conditions do not occur in it (induction over the else-if list).",
 "C08": "Lean theorems over the loop models: per-element step for normal / continue / break results (break stops, continue keeps the partial output and goes on, elements in list order), block folding of control objects, the counter iterator's running count, and — for every input — the parser's loop flag is SCOPED: every parse function returns with the inForBlock flag it was called with (all 20 functions, automated walk), so break/continue are accepted exactly inside loops, however nested. Partial: the unrolling equivalence over whole programs is decided by the oracle.",
 "C09": "Lean theorems: EVALUATOR-WIDE — every one of the 27 evaluator functions returns (value or error) with the current context it was started with, for every program, data and fuel (one automated walk; withCtx and renderIn are the only places that switch and they switch back); every scoping construct runs its body under withCtx on a fresh child context and the caller's context is current again afterwards (on success and on error); writes go to the current frame only; with C10_isolation a write in a child is invisible to ancestors and siblings.",
 "C10": "Lean refinement theorem: for EVERY history of NewContextWith / New / Set, Value and Has of the concrete store (association lists, parent indexes, helper injection) equal those of an abstract scope-chain spec in which a scope is a partial function; corollaries: value-after-set, nearest binding wins, Has ⇔ non-nil, isolation of ancestors and siblings.",
 "C11": "Lean theorems: EVALUATING A DOTTED PATH IS NAVIGATION (C11_path_is_navigation: for every path length, data graph of structs and pointers, state and sufficient fuel, root.f1.….fn evaluates to the left-to-right fold of the one-step member function — nil has nil members, one pointer dereference in front, struct field lookup by name, nil pointer field = nil, non-nil pointer field dereferenced, unexported = error, anything else has no members — and the state is untouched), the right field and never another element's value, pointers transparent, incomplete navigation = error or nil; plus the logic of dotted-path split/join, assignCallee wiring (the indexed element is the root of the member chain, also for a[i].b.f()), two-sided bounds check, missing key = nil. Struct and pointer values are tied to /repo by the render-struct correspondence stream. PARTIAL: methods, embedded structs and the index-then-member rebinding are reflected Go behaviour outside the model and are decided by the self-describing-data oracle.",
 "C12": "Lean theorems stating the binder's decision logic outright: too many arguments / too few for a variadic ⇒ error with nothing evaluated; arguments are evaluated left to right and binding stops at the first failure; unassignable ⇒ error, not invoked; assignable ⇒ passed unchanged in position; nil ⇒ zero value (fixed and variadic); the variadic tail takes all remaining arguments; helper errors keep their cause chain.",
 "C13": "Lean theorems over generated facts (the only ranges over Go maps in the evaluator are the four frame copies; hash literals range over Order; no assignment through AST-typed variables, program only assigned in Parse, no package-level writes), order-irrelevance of frame copies for any two visiting orders, and transparency of the cache for every history. PARTIAL by nature: Go's map-order randomisation is quantified over, not exhibited.",
 "C14": "Lean theorem lockset_sound (any number of threads, any programs, any schedule) instantiated with the generated lock/access facts of context.go and plush.go: no reachable race on Context.data or the cache; executions write only local state; isolation of read-only sharing. PARTIAL by nature: weak memory and unexecuted interleavings are explored with the race detector, not proved.",
 "C15": "Lean theorems: the line counter is EXACT for every input (curLine = 1 + line feeds consumed so far, part of the lexer invariant of Theorem A); a token inside a tag carries the line it STARTS on (1 + line feeds in front of its first byte, after whitespace and # comments), whatever its look-ahead consumed; parser messages (incl. bad literals) carry the current token's line; every runtime error leaving compile carries a line; a completed statement is no longer blamed while a failed one stays current. SHIFT INVARIANCE at the scanner is a theorem (C15_shift_scanner: states seeing the same bytes ahead give tokens whose lines differ by exactly the difference of the line counters). Partial: the lift of shift invariance to error messages of whole renders is checked by the oracle; multi-line tags are known findings.",
 "C16": "Lean theorems about evalUserFunction's model: arity error, arguments evaluated in the caller's scope before any binding, body in a fresh child with exactly the parameters bound, the call's value is never a return wrapper and equals the returned value (also through nested blocks), statements after the reached return are not evaluated.",
 "C17": "Lean theorems: a block helper receives what its block renders to (evaluated once, in the given context, through the sink); no block ⇒ error; contentFor emits nothing and only stores the block; what partial/contentOf/block helpers return is inserted unescaped exactly once; missing contentOf ⇒ error. Partial: the inline equivalence over all bodies is decided by the oracle.",
 "C18": "Lean theorems over the TRANSLATED character classes (separators are exactly space/tab/LF/CR; '-' and '.' fuse with identifiers/numbers — the stated exception; punctuation never fuses) and two global theorems about the scanner model: SUFFIX DETERMINISM (inside a tag the token type and text, and what the scanner sees next, depend only on the bytes from the cursor on — for any two inputs, offsets and lines) and LAYOUT INSIGNIFICANCE (any run of blanks, line ends and # comments in front of a token changes neither the token nor what follows; also across two templates). Parser half: tag delimiters and ';' between statements are skipped (step theorems). Partial: the lift from tokens to whole programs (layout independence of parse results and of rendering) is decided by exhaustive correspondence and the metamorphic oracle.",
 "C19": "Lean theorems over the TRANSLATED iterator code of both shipped copies: range/between/until yield exactly the documented interval and then nil, for ALL int64 arguments including the extremes; the copies are equal; groupBy's partition laws (concatenation, ≤ n groups, no empty group, equal sizes but the last) for every list and n.",
 "C20": "Lean theorems: truncate identity / shape / length bound for all strings, sizes (incl. ≤ 0) and trails; htmlEscape emits none of < > ' \" and un-escapes to its input; jsEscape (ASCII) emits none of < > & = LF CR. The escapers and UTF-8 decoding are a MODEL of the Go standard library (tied by correspondence and the oracle); toJSON is oracle-only.",
}

checks = []
for pid in sorted(reg):
    checks.append({
        "property_id": pid,
        "quick_cmd": "bin/check %s --tier quick" % pid,
        "thorough_cmd": "bin/check %s --tier thorough" % pid,
        "evidence_file": "/verif/evidence/%s.json" % pid,
        "replay_cmd_template": "bin/check %s --replay {path}" % pid,
        "engine": "lean-model",
        "level_claimed": {"category": "proof", "text": CLAIM[pid], "design_ref": "DESIGN.md §6 %s, §13" % pid},
        "level_note": "trusted: Lean 4.33 kernel (axioms audited per theorem: ⊆ propext, Classical.choice, Quot.sound); translator for " +
                      (", ".join(reg[pid]["gen_items"]) or "no generated item") + "; correspondence streams " +
                      (", ".join(s["name"] for s in reg[pid]["streams"]) or "none (race-detector oracle)") +
                      " cover only what their generators reach; model-free oracle decides replays. " + " ".join(reg[pid]["assumptions"]),
        "technique": "Lean 4 machine-checked proof over a model of plush + regenerated Gen tables + differential correspondence (Go vs compiled Lean model) + model-free oracle for replays",
    })

hooks_commits = []
try:
    import subprocess
    out = subprocess.run(["git", "-C", "/repo", "log", "--format=%h %s"], capture_output=True, text=True).stdout
    hooks_commits = [l.split()[0] for l in out.split("\n") if "verif hooks" in l]
except Exception:
    pass

manifest = {
    "version": 1,
    "setup_cmd": "cd /verif && bin/setup",
    "hooks": {
        "guard": "verif",
        "enable": "go build -tags verif (the harness module replaces github.com/gobuffalo/plush/v5 by /repo)",
        "baseline_off_cmd": "cd /repo && GOFLAGS=-mod=mod GOPROXY=off GOSUMDB=off go test -vet=off -count=1 ./...",
        "source_commits": hooks_commits,
        "add_only": True,
    },
    "engines": [
        {"name": "lean-model", "path": "/verif/lean", "serves_properties": sorted(reg),
         "kind_free_text": "Lean 4 model of plush (PlushModel: lexer, parser, printers, evaluator, contexts, helpers), property theorems (PlushProofs/Props/Cxx.lean), compiled driver (drv)"},
        {"name": "translator", "path": "/verif/translator", "serves_properties": sorted(p for p in reg if reg[p]["gen_items"]),
         "kind_free_text": "go/ast translator regenerating PlushModel/Gen/*.lean from /repo on every run (tables, operator rows, iterators, truthiness, sink arms, lock/range/write facts)"},
        {"name": "harness", "path": "/verif/harness", "serves_properties": sorted(reg),
         "kind_free_text": "Go harness: implementation side of the line protocol (correspondence streams) and model-free per-property oracles; race-detector build for C14"},
    ],
    "checks": checks,
    "not_applicable": [],
    "notes": "Every property is decided by Lean theorems over a model + a checked tie to /repo (translator and/or correspondence). C11, C13, C14 are claimed partial (see level text). Known findings: /verif/known_findings.json.",
}
json.dump(manifest, open(os.path.join(VERIF, "MANIFEST.json"), "w"), indent=1)
print("wrote MANIFEST.json with", len(checks), "checks")
