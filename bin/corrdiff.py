#!/usr/bin/env python3
"""Run a correspondence stream: harness emits '<case>\t<impl obs>' lines; the same case lines go to the
Lean driver; the observations are compared. Prints a JSON summary on stdout."""
import json, os, subprocess, sys, tempfile

def run(stream, tier, seed, harness, drv, limit_show=10, arg=""):
    cmd = [harness, "corr", stream, "--tier", tier, "--seed", str(seed)]
    if arg:
        cmd += ["--arg", arg]
    p = subprocess.run(cmd, stdout=subprocess.PIPE, stderr=subprocess.PIPE)
    if p.returncode != 0:
        return {"stream": stream, "error": "harness failed: " + p.stderr.decode()[-400:]}
    cases, impl = [], []
    for line in p.stdout.decode("utf-8", "replace").split("\n"):
        if not line:
            continue
        c, _, o = line.partition("\t")
        cases.append(c)
        impl.append(o)
    d = subprocess.run([drv], input=("\n".join(cases) + "\n").encode(), stdout=subprocess.PIPE, stderr=subprocess.PIPE)
    model = d.stdout.decode("utf-8", "replace").split("\n")
    if model and model[-1] == "":
        model.pop()
    res = {"stream": stream, "cases": len(cases), "agree": 0, "unsupported": 0, "disagreements": [], "kinds": {}}
    if d.returncode != 0 or len(model) != len(cases):
        res["error"] = "driver failed rc=%d lines=%d/%d %s" % (d.returncode, len(model), len(cases), d.stderr.decode()[-300:])
        return res
    seen = set()
    for c, a, m in zip(cases, impl, model):
        k = a.split(" ", 1)[0]
        res["kinds"][k] = res["kinds"].get(k, 0) + 1
        if m.startswith("UNSUPPORTED"):
            res["unsupported"] += 1
            continue
        if a == m:
            res["agree"] += 1
            if c not in seen:
                seen.add(c)
        else:
            if len(res["disagreements"]) < limit_show:
                res["disagreements"].append({"case": c, "impl": a, "model": m})
            res["ndis"] = res.get("ndis", 0) + 1
    res["distinct"] = len(seen)
    return res

if __name__ == "__main__":
    stream, tier, seed = sys.argv[1], sys.argv[2], int(sys.argv[3])
    harness = sys.argv[4] if len(sys.argv) > 4 else "/verif/harness/harness"
    drv = sys.argv[5] if len(sys.argv) > 5 else "/verif/lean/.lake/build/bin/drv"
    r = run(stream, tier, seed, harness, drv)
    json.dump(r, sys.stdout, indent=1)
    print()
