#!/usr/bin/env python3
"""Regenerates /verif/registry.json from the Props files (theorem names + their doc comments) and the
per-property configuration below (translator items, correspondence streams, assumptions)."""
import json, os, re

VERIF = os.path.dirname(os.path.dirname(os.path.abspath(__file__)))
PROPS = os.path.join(VERIF, "lean", "PlushProofs", "Props")

CONF = {
 "C01": {"gen": ["WriteCases"], "streams": [("render-gen", "full"), ("render-struct", "full"), ("render-lit", "full")],
         "assume": ["fmt.Stringer values, named string types and time formats are outside the property's wording and outside the plumbing grammar"]},
 "C02": {"gen": ["CharClasses"], "streams": [("lex-text", "full"), ("parse-text", "full"), ("render-gen", "full"), ("render-lit", "full")], "assume": []},
 "C03": {"gen": ["ParseFns", "Keywords", "CharClasses", "Precedences"],
         "streams": [("parse-tok", "kind"), ("parse-text", "kind"), ("lex-text", "kind"), ("lex-nul", "kind")],
         "assume": ["Go stack exhaustion on pathologically deep nesting is outside the model (nesting to depth 256 is exercised by the oracle)"]},
 "C04": {"gen": ["Operators", "EvalDispatch"], "streams": [("render-gen", "class"), ("render-struct", "class")],
         "assume": ["struct / method / func values of the Go universe are outside the model: their matrices are decided by the oracle only",
                    "self-referential data and unbounded recursion exhaust the Go stack (fatal, not a panic): not generated"]},
 "C05": {"gen": ["Operators", "EvalDispatch"], "streams": [("render-gen", "full")], "assume": []},
 "C06": {"gen": ["Precedences", "Operators", "ParseFns"], "streams": [("parse-tok", "full"), ("render-gen", "full")],
         "assume": ["float64 values are exact dyadic rationals in the model; regexp (~=) is outside the model",
                    "known finding: a bool left operand coerces the right one (true + 1); pinned by the repository's own test Test_Render_Bool_Concat"]},
 "C07": {"gen": ["Truthy", "Operators"], "streams": [("render-gen", "full"), ("render-struct", "full")], "assume": ["typed nil pointers are in the model (Val.ptr _ none, stream render-struct); other nil-able kinds (nil func, nil chan) are oracle only"]},
 "C08": {"gen": ["Iterators"], "streams": [("parse-tok", "full"), ("render-gen", "full")], "assume": ["Go map iteration order is the licensed variation; the correspondence stream iterates maps of one entry"]},
 "C09": {"gen": ["EvalDispatch"], "streams": [("render-gen", "full")], "assume": []},
 "C10": {"gen": ["HelperKeys"], "streams": [("ctx-hist", "full")], "assume": []},
 "C11": {"gen": ["EvalDispatch"], "streams": [("parse-tok", "full"), ("render-struct", "full")],
         "assume": ["PARTIAL: struct fields and pointers are modelled (Val.struct / Val.ptr, stream render-struct); methods, embedded structs and the index-then-member rebinding are reflected Go behaviour outside the model: for them navigation is decided by the oracle (self-describing data)"]},
 "C12": {"gen": ["EvalDispatch"], "streams": [("render-gen", "full"), ("render-struct", "full")], "assume": ["the signature family of the model is the harness' closed helper family; the full signature product is enumerated by the oracle"]},
 "C13": {"gen": ["ConcFacts"], "streams": [("render-gen", "full")],
         "assume": ["PARTIAL by nature: Go's map-order randomisation is quantified over (any permutation) in the model and sampled (r repetitions) by the oracle"]},
 "C14": {"gen": ["ConcFacts"], "streams": [],
         "assume": ["PARTIAL by nature: weak-memory reorderings and unexecuted interleavings are outside the model; the oracle runs under the Go race detector",
                    "data races inside user-supplied helpers are outside the property"], "race": True},
 "C15": {"gen": [], "streams": [("lex-tok", "full"), ("parse-tok", "full"), ("render-gen", "full")],
         "assume": ["known findings: a statement that starts on a later line than its tag opener is reported with the statement's line"]},
 "C16": {"gen": ["EvalDispatch"], "streams": [("render-gen", "full")], "assume": []},
 "C17": {"gen": [], "streams": [("render-gen", "full")], "assume": ["jsEscape of non-ASCII text depends on unicode.IsPrint (not modelled; unsupported in the model)"]},
 "C18": {"gen": ["CharClasses", "Keywords"], "streams": [("lex-tok", "full"), ("parse-tok", "full"), ("lex-nul", "full")], "assume": []},
 "C19": {"gen": ["Iterators", "HelperKeys"], "streams": [("render-gen", "full")], "assume": ["groupBy's reflective slicing is modelled on lists (tied by render-gen and the oracle)"]},
 "C20": {"gen": ["HelperKeys"], "streams": [("render-gen", "full")],
         "assume": ["text/template.HTMLEscape / JSEscape, unicode/utf8 and encoding/json are MODELLED (standard library), tied by correspondence and the oracle only",
                    "toJSON is outside the model (oracle only)"]},
}

THM = re.compile(r"^theorem\s+([A-Za-z0-9_'.]+)", re.M)
DOC = re.compile(r"/--(.*?)-/\s*\n(?:attribute[^\n]*\n)?theorem\s+([A-Za-z0-9_'.]+)", re.S)


def main():
    reg = {}
    for pid, conf in sorted(CONF.items()):
        path = os.path.join(PROPS, pid + ".lean")
        src = open(path).read()
        docs = {m.group(2): " ".join(m.group(1).split()) for m in DOC.finditer(src)}
        thms = []
        for name in THM.findall(src):
            # registered obligations: the property theorems and the named key lemmas
            if not (name.startswith(pid + "_") or name in ("lockset_sound", "drain_live", "withCtx_restores", "writeVal_strTree")):
                continue
            thms.append({"module": "PlushProofs.Props." + pid, "name": "Plush." + name, "statement": docs.get(name, "")[:400]})
        reg[pid] = {
            "level": "proof",
            "gen_items": conf["gen"],
            "theorems": thms,
            "streams": [{"name": n, "projection": p} for n, p in conf["streams"]],
            "assumptions": conf["assume"],
        }
        if conf.get("race"):
            reg[pid]["race"] = True
    with open(os.path.join(VERIF, "registry.json"), "w") as f:
        json.dump(reg, f, indent=1)
    for pid in sorted(reg):
        print(pid, len(reg[pid]["theorems"]), "theorems;", ",".join(s["name"] for s in reg[pid]["streams"]) or "-")


if __name__ == "__main__":
    main()
