#!/usr/bin/env python3
import json,binascii,sys
r=json.load(open(sys.argv[1]))
print({k:r.get(k) for k in ('cases','agree','unsupported','ndis','kinds','error')})
def dec(o):
    p=o.split(' ',1)
    if p[0]=='OK' and len(p)>1 and p[1]!='-':
        try: return 'OK '+repr(binascii.unhexlify(p[1]).decode('utf8','replace'))
        except Exception: return o
    return o
for d in r['disagreements'][:int(sys.argv[2]) if len(sys.argv)>2 else 8]:
    f=d['case'].split()
    if f[0]=='render':
        print(repr(binascii.unhexlify(f[2]).decode('utf8','replace')), f[3] if len(f)>3 else '')
    else:
        print(repr(binascii.unhexlify(f[1]).decode('utf8','replace')) if f[1]!='-' else "''")
    print('   impl ', dec(d['impl'])); print('   model', dec(d['model']))
