#!/usr/bin/env python3
"""Prints the markdown table of DESIGN.md §13.5 from seeded/*/meta.json, NOTES.md and result.json."""
import glob, json, os, re
VERIF = os.path.dirname(os.path.dirname(os.path.abspath(__file__)))
rows = []
for d in sorted(glob.glob(os.path.join(VERIF, "seeded", "*"))):
    name = os.path.basename(d)
    meta = json.load(open(os.path.join(d, "meta.json"))) if os.path.exists(os.path.join(d, "meta.json")) else {}
    res = json.load(open(os.path.join(d, "result.json"))) if os.path.exists(os.path.join(d, "result.json")) else {}
    notes = open(os.path.join(d, "NOTES.md")).read() if os.path.exists(os.path.join(d, "NOTES.md")) else ""
    diff = open(os.path.join(d, "patch.diff")).read()
    files = sorted(set(x.split(" b/")[1] for x in diff.split("\n") if x.startswith("diff --git")))
    head = ""
    for l in notes.split("\n"):
        l = l.strip().lstrip("#").strip()
        if l:
            head = l
            break
    head = re.sub(r"\s+", " ", head)[:110]
    pid = meta.get("property", name[:3])
    chk = res.get("checks", {}).get(pid, {})
    lines = " ".join(chk.get("lines", []))
    how = "—"
    if res.get("caught"):
        m = re.search(r"failures=(\d+)", lines)
        nf = int(m.group(1)) if m else 0
        if "no-failing-input-found" in lines:
            how = "tie broken (model ≠ code), no failing input produced"
        else:
            how = "failing input (oracle%s)" % ("; tie also broken" if re.search(r":(\d+)/(\d+)", lines) and any(a != b for a, b in re.findall(r":(\d+)/(\d+)", lines)) else "")
    elif res:
        how = "MISSED"
    rows.append("| %s | %s | %s | %s | %s |" % (name, pid, ", ".join(files), head.replace("|", "/"), how))
print("| seeded change | property | files | what (author's first line) | `bin/check <property> --tier quick` |")
print("|---|---|---|---|---|")
print("\n".join(rows))
