structure Ranger where
  pos : Int64
  end_ : Int64

def Ranger.next (r : Ranger) : Ranger × Option Int64 :=
  if r.pos < r.end_ then ({ r with pos := r.pos + 1 }, some (r.pos + 1)) else (r, none)

def Range (a b : Int64) : Ranger := { pos := a - 1, end_ := b }

theorem i64_lt (a b : Int64) : a < b ↔ a.toInt < b.toInt := Int64.lt_iff_toInt_lt
theorem i64_bounds (a : Int64) : -9223372036854775808 ≤ a.toInt ∧ a.toInt ≤ 9223372036854775807 := by
  have h1 := Int64.le_toInt a; have h2 := Int64.toInt_le a
  have hm : Int64.maxValue.toInt = 9223372036854775807 := by decide
  rw [hm] at h2
  have : (-2 : Int) ^ 63 = -9223372036854775808 := by decide
  constructor <;> omega

theorem succ_toInt (a b : Int64) (h : a < b) : (a + 1).toInt = a.toInt + 1 := by
  have h1 : (1 : Int64).toInt = 1 := by decide
  have ha := i64_bounds a; have hb := i64_bounds b
  rw [i64_lt] at h
  rw [Int64.toInt_add, h1, Int.bmod_def]
  omega

def drain (r : Ranger) : List Int64 :=
  if h : r.pos < r.end_ then (r.pos + 1) :: drain { r with pos := r.pos + 1 } else []
termination_by (r.end_.toInt - r.pos.toInt).toNat
decreasing_by
  have := succ_toInt r.pos r.end_ h
  rw [i64_lt] at h
  simp only [this]
  omega

def interval (lo : Int) : Nat → List Int
  | 0 => []
  | n+1 => lo :: interval (lo + 1) n

theorem drain_spec (r : Ranger) :
    (drain r).map Int64.toInt = interval (r.pos.toInt + 1) (r.end_.toInt - r.pos.toInt).toNat := by
  generalize hn : (r.end_.toInt - r.pos.toInt).toNat = n
  induction n generalizing r with
  | zero =>
    rw [drain]; have : ¬ r.pos < r.end_ := by rw [i64_lt]; omega
    simp [this, interval]
  | succ n ih =>
    have hlt : r.pos < r.end_ := by rw [i64_lt]; omega
    rw [drain]; simp only [hlt, dite_true, List.map_cons]
    have hs := succ_toInt r.pos r.end_ hlt
    rw [ih { r with pos := r.pos + 1 } (by simp only [hs]; omega)]
    simp only [hs, interval]

/-- range(a,b) = a..b inclusive, for every a except the wrap point -/
theorem range_spec (a b : Int64) (ha : Int64.minValue < a) :
    (drain (Range a b)).map Int64.toInt = interval a.toInt (b.toInt - a.toInt + 1).toNat := by
  have h1 : (1 : Int64).toInt = 1 := by decide
  have hn : Int64.minValue.toInt = -9223372036854775808 := by decide
  have hb := i64_bounds a
  rw [i64_lt, hn] at ha
  have hsub : (a - 1).toInt = a.toInt - 1 := by
    rw [Int64.toInt_sub, h1, Int.bmod_def]; omega
  rw [drain_spec]; simp only [Range, hsub]
  congr 1 <;> omega

-- the wrap point is a genuine counter-example of the unguarded statement
example : drain (Range Int64.minValue (Int64.minValue + 1)) = [] := by
  rw [drain]; decide
#print axioms range_spec
