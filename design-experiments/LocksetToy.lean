inductive Ev | lock (m : Nat) | unlock (m : Nat) | rd (l : Nat) | wr (l : Nat)
  deriving DecidableEq, Repr

/-- static discipline of one thread's program: every access to `loc` happens while holding `m` -/
def okFrom (m loc : Nat) : Bool → List Ev → Prop
  | _, [] => True
  | h, .lock m' :: rest => if m' = m then okFrom m loc true rest else okFrom m loc h rest
  | h, .unlock m' :: rest => if m' = m then okFrom m loc false rest else okFrom m loc h rest
  | h, .rd l :: rest => (l = loc → h = true) ∧ okFrom m loc h rest
  | h, .wr l :: rest => (l = loc → h = true) ∧ okFrom m loc h rest

structure St where
  progs : Nat → List Ev          -- remaining program of each thread (any number of threads)
  holder : Nat → Option Nat      -- mutex ↦ holding thread

inductive Step : St → St → Prop
  | lock (s t m rest) : s.progs t = .lock m :: rest → s.holder m = none →
      Step s { progs := fun u => if u = t then rest else s.progs u,
               holder := fun m' => if m' = m then some t else s.holder m' }
  | unlock (s t m rest) : s.progs t = .unlock m :: rest → s.holder m = some t →
      Step s { progs := fun u => if u = t then rest else s.progs u,
               holder := fun m' => if m' = m then none else s.holder m' }
  | rd (s t l rest) : s.progs t = .rd l :: rest →
      Step s { s with progs := fun u => if u = t then rest else s.progs u }
  | wr (s t l rest) : s.progs t = .wr l :: rest →
      Step s { s with progs := fun u => if u = t then rest else s.progs u }

inductive Reach (s0 : St) : St → Prop
  | refl : Reach s0 s0
  | step {s s'} : Reach s0 s → Step s s' → Reach s0 s'

def accesses (loc : Nat) : List Ev → Bool
  | .rd l :: _ => l = loc
  | .wr l :: _ => l = loc
  | _ => false
def writes (loc : Nat) : List Ev → Bool
  | .wr l :: _ => l = loc
  | _ => false

/-- two different threads are both about to access `loc`, one of them writing -/
def Race (loc : Nat) (s : St) : Prop :=
  ∃ t u, t ≠ u ∧ accesses loc (s.progs t) ∧ accesses loc (s.progs u) ∧ (writes loc (s.progs t) ∨ writes loc (s.progs u))

def LInv (m loc : Nat) (s : St) : Prop := ∀ t, okFrom m loc (s.holder m == some t) (s.progs t)

theorem inv_step {m loc s s'} (hi : LInv m loc s) (hs : Step s s') : LInv m loc s' := by
  intro u
  cases hs with
  | lock t m' rest hp hh =>
    have hu := hi u
    by_cases hut : u = t
    · subst hut
      simp only [if_pos rfl]
      rw [hp] at hu; simp only [okFrom] at hu
      by_cases hm : m' = m
      · subst hm; simpa using hu
      · simp only [if_neg hm] at hu; simp only [if_neg (Ne.symm hm)]; exact hu
    · simp only [if_neg hut]
      by_cases hm : m = m'
      · subst hm
        have hne : (t == u) = false := by simp; exact fun h => hut h.symm
        rw [hh] at hu
        simp [hne] at hu ⊢; exact hu
      · simp only [if_neg hm]; exact hu
  | unlock t m' rest hp hh =>
    have hu := hi u
    by_cases hut : u = t
    · subst hut
      simp only [if_pos rfl]
      rw [hp] at hu; simp only [okFrom] at hu
      by_cases hm : m' = m
      · subst hm; simpa using hu
      · simp only [if_neg hm] at hu; simp only [if_neg (Ne.symm hm)]; exact hu
    · simp only [if_neg hut]
      by_cases hm : m = m'
      · subst hm
        have hne : (t == u) = false := by simp; exact fun h => hut h.symm
        rw [hh] at hu
        simp [hne] at hu ⊢; exact hu
      · simp only [if_neg hm]; exact hu
  | rd t l rest hp =>
    have hu := hi u
    by_cases hut : u = t
    · subst hut; simp only [if_pos rfl]; rw [hp] at hu; exact hu.2
    · simp only [if_neg hut]; exact hu
  | wr t l rest hp =>
    have hu := hi u
    by_cases hut : u = t
    · subst hut; simp only [if_pos rfl]; rw [hp] at hu; exact hu.2
    · simp only [if_neg hut]; exact hu

theorem okFrom_access {m loc h p} (hok : okFrom m loc h p) (ha : accesses loc p = true) : h = true := by
  cases p with
  | nil => simp [accesses] at ha
  | cons e rest =>
    cases e <;> simp [accesses] at ha <;> simp only [okFrom] at hok <;> exact hok.1 ha

/-- lockset soundness: any number of threads, any schedule -/
theorem lockset_sound (m loc : Nat) (s0 s : St) (h0 : LInv m loc s0) (hr : Reach s0 s) : ¬ Race loc s := by
  have hinv : LInv m loc s := by
    induction hr with
    | refl => exact h0
    | step _ hs ih => exact inv_step ih hs
  rintro ⟨t, u, htu, hat, hau, _⟩
  have h1 := okFrom_access (hinv t) hat
  have h2 := okFrom_access (hinv u) hau
  simp at h1 h2
  rw [h1] at h2; injection h2 with h2; exact htu h2
#print axioms lockset_sound
