inductive Op | add | sub | mul | div
  deriving DecidableEq, Repr

def Op.prec : Op → Nat
  | .add | .sub => 4
  | .mul | .div => 5

inductive Tok | num (n : Nat) | op (o : Op) | lp | rp | eof
  deriving DecidableEq, Repr

inductive E | num (n : Nat) | bin (o : Op) (l r : E)
  deriving DecidableEq, Repr

abbrev R := Option (E × List Tok)

def prefixStep (pe : Nat → List Tok → R) : List Tok → R
  | .num n :: rest => some (.num n, .num n :: rest)
  | .lp :: rest =>
    match pe 1 rest with
    | some (e, _ :: .rp :: rest') => some (e, .rp :: rest')
    | _ => none
  | _ => none

def loopStep (pe : Nat → List Tok → R) (pl : Nat → E → List Tok → R) (prec : Nat) (l : E) : List Tok → R
  | cur :: .op o :: rest =>
    if prec < o.prec then
      match pe o.prec rest with
      | some (r, ts') => pl prec (.bin o l r) ts'
      | none => none
    else some (l, cur :: .op o :: rest)
  | ts => some (l, ts)

mutual
def parseExpr : Nat → Nat → List Tok → R
  | 0 => fun _ _ => none
  | fuel+1 => fun prec ts =>
    match parsePrefix fuel ts with
    | none => none
    | some (l, ts') => parseLoop fuel prec l ts'
def parsePrefix : Nat → List Tok → R
  | 0 => fun _ => none
  | fuel+1 => fun ts => prefixStep (parseExpr fuel) ts
def parseLoop : Nat → Nat → E → List Tok → R
  | 0 => fun _ _ _ => none
  | fuel+1 => fun prec l ts => loopStep (parseExpr fuel) (parseLoop fuel) prec l ts
end

def pr (p : Nat) : E → List Tok
  | .num n => [.num n]
  | .bin o l r =>
    let body := pr o.prec l ++ [.op o] ++ pr (o.prec + 1) r
    if o.prec < p then [.lp] ++ body ++ [.rp] else body

#eval parseExpr 100 1 (pr 2 (.bin .sub (.bin .sub (.num 1) (.num 2)) (.num 3)) ++ [.eof])
#eval parseExpr 100 1 (pr 2 (.bin .mul (.num 1) (.bin .sub (.num 2) (.num 3))) ++ [.eof])

@[simp] theorem parseExpr_succ (f q ts) : parseExpr (f+1) q ts =
    match parsePrefix f ts with
    | none => none
    | some (l, ts') => parseLoop f q l ts' := rfl
@[simp] theorem parsePrefix_succ (f ts) : parsePrefix (f+1) ts = prefixStep (parseExpr f) ts := rfl
@[simp] theorem parseLoop_succ (f q l ts) : parseLoop (f+1) q l ts = loopStep (parseExpr f) (parseLoop f) q l ts := rfl
@[simp] theorem parseExpr_zero (q ts) : parseExpr 0 q ts = none := rfl
@[simp] theorem parsePrefix_zero (ts) : parsePrefix 0 ts = none := rfl
@[simp] theorem parseLoop_zero (q l ts) : parseLoop 0 q l ts = none := rfl

theorem mono : ∀ f,
    (∀ q ts r, parseExpr f q ts = some r → parseExpr (f+1) q ts = some r) ∧
    (∀ ts r, parsePrefix f ts = some r → parsePrefix (f+1) ts = some r) ∧
    (∀ q l ts r, parseLoop f q l ts = some r → parseLoop (f+1) q l ts = some r) := by
  intro f
  induction f with
  | zero => simp
  | succ f ih =>
    obtain ⟨ihE, ihP, ihL⟩ := ih
    refine ⟨?_, ?_, ?_⟩
    · intro q ts r h
      rw [parseExpr_succ] at h ⊢
      split at h
      · simp at h
      · rename_i l ts' hp
        rw [ihP _ _ hp]
        exact ihL _ _ _ _ h
    · intro ts r h
      rw [parsePrefix_succ] at h ⊢
      unfold prefixStep at h ⊢
      split at h
      · exact h
      · split at h
        · rename_i e c rest' he
          rw [ihE _ _ _ he]; exact h
        · simp at h
      · simp at h
    · intro q l ts r h
      rw [parseLoop_succ] at h ⊢
      unfold loopStep at h ⊢
      split at h
      · split at h
        · rename_i hlt
          rw [if_pos hlt]
          split at h
          · rename_i r' ts' he
            rw [ihE _ _ _ he]; exact ihL _ _ _ _ h
          · simp at h
        · rename_i hlt
          rw [if_neg hlt]; exact h
      · exact h

theorem monoE {f f' q ts r} (hle : f ≤ f') (h : parseExpr f q ts = some r) : parseExpr f' q ts = some r := by
  induction hle with
  | refl => exact h
  | step _ ih => exact (mono _).1 _ _ _ ih
theorem monoL {f f' q l ts r} (hle : f ≤ f') (h : parseLoop f q l ts = some r) : parseLoop f' q l ts = some r := by
  induction hle with
  | refl => exact h
  | step _ ih => exact (mono _).2.2 _ _ _ _ ih

/-- last token of the printing -/
def lastT (p : Nat) : E → Tok
  | .num n => .num n
  | .bin o _ r => if o.prec < p then .rp else lastT (o.prec + 1) r

def headOk (bound : Nat) : List Tok → Prop
  | .op o' :: _ => o'.prec ≤ bound
  | _ => True

def edge (p : Nat) (e : E) (k : List Tok) : Prop :=
  match e with
  | .num _ => True
  | .bin o _ _ => if o.prec < p then True else headOk o.prec k

theorem loop_stops (q : Nat) (e : E) (c : Tok) (k : List Tok) (h : headOk q k) :
    parseLoop 1 q e (c :: k) = some (e, c :: k) := by
  rw [parseLoop_succ]
  unfold loopStep
  split
  · rename_i cur o rest heq
    injection heq with h1 h2
    subst h1; subst h2
    simp only [headOk] at h
    rw [if_neg (by omega)]
  · rfl

theorem low_lt (o : Op) : 1 < o.prec := by cases o <;> simp [Op.prec]

theorem headOk_mono {a b k} (hab : a ≤ b) (h : headOk a k) : headOk b k := by
  unfold headOk at *; split <;> simp_all <;> omega

theorem main (e : E) : ∀ q p k res, q < p → edge p e k →
    (∃ f, parseLoop f q e (lastT p e :: k) = some res) →
    ∃ f, parseExpr f q (pr p e ++ k) = some res := by
  induction e with
  | num n =>
    intro q p k res _ _ ⟨f, hf⟩
    cases f with
    | zero => simp at hf
    | succ f =>
      refine ⟨f + 2, ?_⟩
      simp only [pr, lastT] at *
      rw [parseExpr_succ, parsePrefix_succ]
      simp only [prefixStep, List.cons_append, List.nil_append]
      exact hf
  | bin o l r ihl ihr =>
    -- body claim
    have body : ∀ q k res, q < o.prec → headOk o.prec k →
        (∃ f, parseLoop f q (.bin o l r) (lastT (o.prec+1) r :: k) = some res) →
        ∃ f, parseExpr f q ((pr o.prec l ++ [.op o] ++ pr (o.prec+1) r) ++ k) = some res := by
      intro q k res hq hk ⟨f2, hf2⟩
      -- parse of r
      have hr : ∃ f, parseExpr f o.prec (pr (o.prec+1) r ++ k) = some (r, lastT (o.prec+1) r :: k) := by
        apply ihr o.prec (o.prec+1) k _ (by omega)
        · cases r with
          | num _ => simp [edge]
          | bin o2 _ _ =>
            simp only [edge]; split
            · trivial
            · exact headOk_mono (by omega) hk
        · exact ⟨1, loop_stops _ _ _ _ hk⟩
      obtain ⟨f1, hf1⟩ := hr
      have : (pr o.prec l ++ [.op o] ++ pr (o.prec+1) r) ++ k
            = pr o.prec l ++ (.op o :: (pr (o.prec+1) r ++ k)) := by simp
      rw [this]
      apply ihl q o.prec _ res hq
      · cases l with
        | num _ => simp [edge]
        | bin o1 _ _ =>
          simp only [edge]; split
          · trivial
          · simp only [headOk]; omega
      · refine ⟨max f1 f2 + 1, ?_⟩
        rw [parseLoop_succ]
        simp only [loopStep, if_pos hq]
        rw [monoE (Nat.le_max_left f1 f2) hf1]
        exact monoL (Nat.le_max_right f1 f2) hf2
    intro q p k res hqp hedge ⟨f, hf⟩
    by_cases hp : o.prec < p
    · -- parenthesised
      simp only [pr, lastT, if_pos hp] at *
      have hb := body 1 (.rp :: k) (.bin o l r, lastT (o.prec+1) r :: .rp :: k) (low_lt o) (by simp [headOk])
        ⟨1, loop_stops _ _ _ _ (by simp [headOk])⟩
      obtain ⟨f1, hf1⟩ := hb
      refine ⟨max f1 f + 2, ?_⟩
      rw [parseExpr_succ, parsePrefix_succ]
      simp only [List.cons_append, List.nil_append, List.append_assoc, prefixStep] at hf1 ⊢
      rw [monoE (Nat.le_max_left f1 f) hf1]
      exact monoL (by omega) hf
    · -- bare
      simp only [pr, lastT, if_neg hp] at *
      simp only [edge, if_neg hp] at hedge
      exact body q k res (by omega) hedge ⟨f, hf⟩

/-- Pratt round trip: any expression, printed with minimal parentheses and followed by any
    continuation that does not start with a tighter-binding operator, parses back to itself. -/
theorem parse_print (e : E) (k : List Tok) (hk : headOk 1 k) :
    ∃ f, parseExpr f 1 (pr 2 e ++ k) = some (e, lastT 2 e :: k) := by
  apply main e 1 2 k _ (by omega)
  · cases e with
    | num _ => simp [edge]
    | bin o _ _ => simp only [edge]; split; trivial; exact headOk_mono (by have := low_lt o; omega) hk
  · exact ⟨1, loop_stops _ _ _ _ hk⟩

#print axioms parse_print
