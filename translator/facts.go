package main

import (
	"fmt"
	"go/ast"
	"go/token"
	"sort"
	"strconv"
	"strings"
)

// Gen/Truthy.lean, Gen/WriteCases.lean, Gen/ConcFacts.lean: facts read off the source text.

func genTruthy() {
	_, f, sha := parseFile("compiler.go")
	fd := findFunc(f, "isTruthy")
	if fd == nil {
		fail("func isTruthy not found")
	}
	if len(fd.Body.List) != 2 {
		fail("isTruthy: expected a nil guard and a type switch")
	}
	g, ok := fd.Body.List[0].(*ast.IfStmt)
	if !ok || exprString(g.Cond) != "i == nil" || len(g.Body.List) != 1 || exprString(g.Body.List[0].(*ast.ReturnStmt).Results[0]) != "false" {
		fail("isTruthy: nil guard")
	}
	ts, ok := fd.Body.List[1].(*ast.TypeSwitchStmt)
	if !ok {
		fail("isTruthy: type switch")
	}
	arms := map[string]string{}
	haveDefault := false
	for _, c := range ts.Body.List {
		cc := c.(*ast.CaseClause)
		if cc.List == nil {
			// default: nil pointers are falsy, everything else truthy
			if len(cc.Body) != 2 {
				fail("isTruthy: default arm shape")
			}
			ifs, ok := cc.Body[0].(*ast.IfStmt)
			if !ok || !strings.Contains(exprString(ifs.Cond), "Kind(…) == reflect.Ptr") || !strings.Contains(exprString(ifs.Cond), "IsNil(…)") ||
				exprString(ifs.Body.List[0].(*ast.ReturnStmt).Results[0]) != "false" {
				fail("isTruthy: default arm is not the nil-pointer test")
			}
			if exprString(cc.Body[1].(*ast.ReturnStmt).Results[0]) != "true" {
				fail("isTruthy: default arm does not end in return true")
			}
			haveDefault = true
			continue
		}
		if len(cc.List) != 1 || len(cc.Body) != 1 {
			fail("isTruthy: arm shape")
		}
		ty := exprString(cc.List[0])
		res := exprString(cc.Body[0].(*ast.ReturnStmt).Results[0])
		switch {
		case ty == "bool" && res == "t":
			arms["bool"] = "t"
		case (ty == "string" || ty == "template.HTML") && res == `t != ""`:
			arms[ty] = "!empty"
		default:
			fail("isTruthy: arm `case %s: return %s` is outside the translated subset", ty, res)
		}
	}
	if !haveDefault || arms["bool"] == "" || arms["string"] == "" || arms["template.HTML"] == "" {
		fail("isTruthy: missing arm")
	}
	var sb strings.Builder
	fmt.Fprintf(&sb, header, "compiler.go (isTruthy)")
	sb.WriteString("namespace Plush.Gen\n\n")
	sb.WriteString("/-- what `isTruthy` can distinguish about an `interface{}` -/\ninductive TView\n  | nil | bool (t : Bool) | string (empty : Bool) | html (empty : Bool) | nilPtr | other\n  deriving DecidableEq, Repr\n\n")
	sb.WriteString("def isTruthyView : TView → Bool\n  | .nil => false\n  | .bool t => t\n  | .string empty => !empty\n  | .html empty => !empty\n  | .nilPtr => false\n  | .other => true\n\n")
	sb.WriteString("end Plush.Gen\n")
	emit("Truthy", "compiler.go", sha, sb.String())
}

func genWriteCases() {
	_, f, sha := parseFile("compiler.go")
	fd := findFunc(f, "write")
	if fd == nil {
		fail("func write not found")
	}
	stmts := fd.Body.List
	nilGuard := false
	if len(stmts) == 2 {
		// leading guard: `if rv := reflect.ValueOf(i); rv.Kind() == reflect.Ptr && rv.IsNil() { return }`
		if g, ok := stmts[0].(*ast.IfStmt); ok && g.Init != nil && strings.Contains(exprString(g.Cond), "Kind(…) == reflect.Ptr") &&
			strings.Contains(exprString(g.Cond), "IsNil(…)") && len(g.Body.List) == 1 {
			if rs, ok := g.Body.List[0].(*ast.ReturnStmt); ok && len(rs.Results) == 0 {
				nilGuard = true
				stmts = stmts[1:]
			}
		}
	}
	if len(stmts) != 1 {
		fail("write: expected (an optional nil-pointer guard and) a single type switch")
	}
	ts, ok := stmts[0].(*ast.TypeSwitchStmt)
	if !ok {
		fail("write: expected a type switch")
	}
	var rows []string
	for _, c := range ts.Body.List {
		cc := c.(*ast.CaseClause)
		if cc.List == nil {
			fail("write: default arm")
		}
		var tys []string
		for _, e := range cc.List {
			tys = append(tys, strconv.Quote(exprString(e)))
		}
		// classify the action syntactically from the calls in the arm's body
		body := ""
		for _, st := range cc.Body {
			ast.Inspect(st, func(n ast.Node) bool {
				if ce, ok := n.(*ast.CallExpr); ok {
					body += exprString(ce.Fun) + "(" 
					for _, a := range ce.Args {
						body += exprString(a) + ","
					}
					body += ");"
				}
				return true
			})
		}
		class := ""
		switch {
		case strings.Contains(body, "template.HTMLEscaper("):
			class = "escape"
		case strings.Contains(body, "t.Format("):
			class = "time"
		case strings.Contains(body, "c.write(bb,*t,"):
			class = "deref"
		case strings.Contains(body, "t.Interface("):
			class = "unwrap"
		case strings.Contains(body, "t.HTML();"):
			class = "htmler"
		case strings.Contains(body, "string(t,)"):
			class = "verbatim"
		case strings.Contains(body, "fmt.Sprint(t,"):
			class = "sprint"
		case strings.Contains(body, "t.String("):
			class = "stringer"
		case strings.Contains(body, "c.write(bb,ii,"):
			class = "recurse"
		default:
			fail("write: cannot classify arm %v (%s)", tys, body)
		}
		// `string(t)` is a conversion, not a call of a function named string: look for it in the text of the arm
		rows = append(rows, fmt.Sprintf("  ([%s], %s)", strings.Join(tys, ", "), strconv.Quote(class)))
	}
	var sb strings.Builder
	fmt.Fprintf(&sb, header, "compiler.go (compiler.write)")
	sb.WriteString("namespace Plush.Gen\n\n/-- the arms of the type switch in `compiler.write`, in order: (types of the arm, action class) -/\n")
	sb.WriteString("def writeCases : List (List String × String) := [\n" + strings.Join(rows, ",\n") + "\n]\n\n")
	fmt.Fprintf(&sb, "/-- `write` starts by returning on a typed nil pointer (nothing is written for it) -/\ndef writeNilPointerGuard : Bool := %v\n\nend Plush.Gen\n", nilGuard)
	emit("WriteCases", "compiler.go", sha, sb.String())
}

// ---------- concurrency / determinism facts ----------

type event struct{ kind, what string }

func fnEvents(fd *ast.FuncDecl, locks map[string]string, locs []string) []event {
	// locks: text of mutex expr -> name; locs: substrings identifying shared locations
	var evs []event
	var deferred []event
	var walk func(n ast.Node)
	access := func(e ast.Expr, write bool) {
		s := exprString(e)
		for _, l := range locs {
			if s == l {
				k := "rd"
				if write {
					k = "wr"
				}
				evs = append(evs, event{k, l})
			}
		}
	}
	walk = func(n ast.Node) {
		switch t := n.(type) {
		case nil:
			return
		case *ast.BlockStmt:
			for _, s := range t.List {
				walk(s)
			}
		case *ast.DeferStmt:
			if sel, ok := t.Call.Fun.(*ast.SelectorExpr); ok && sel.Sel.Name == "Unlock" {
				if name, ok := locks[exprString(sel.X)]; ok {
					deferred = append(deferred, event{"unlock", name})
					return
				}
			}
			// other deferred calls: body is walked at the end
			if fl, ok := t.Call.Fun.(*ast.FuncLit); ok {
				_ = fl
			}
		case *ast.ExprStmt:
			if ce, ok := t.X.(*ast.CallExpr); ok {
				if sel, ok := ce.Fun.(*ast.SelectorExpr); ok && (sel.Sel.Name == "Lock" || sel.Sel.Name == "Unlock") {
					if name, ok := locks[exprString(sel.X)]; ok {
						evs = append(evs, event{strings.ToLower(sel.Sel.Name), name})
						return
					}
				}
			}
			walkExpr(t.X, access)
		case *ast.AssignStmt:
			for _, r := range t.Rhs {
				walkExpr(r, access)
			}
			for _, l := range t.Lhs {
				if ix, ok := l.(*ast.IndexExpr); ok {
					access(ix.X, true)
					walkExpr(ix.Index, access)
				} else {
					s := exprString(l)
					for _, loc := range locs {
						if s == loc {
							evs = append(evs, event{"wr", loc})
						}
					}
				}
			}
		case *ast.IfStmt:
			walk(t.Init)
			walkExpr(t.Cond, access)
			walk(t.Body)
			walk(t.Else)
		case *ast.ForStmt:
			walk(t.Init)
			walkExpr(t.Cond, access)
			walk(t.Body)
		case *ast.RangeStmt:
			access(t.X, false)
			walkExpr(t.X, access)
			walk(t.Body)
		case *ast.ReturnStmt:
			for _, r := range t.Results {
				walkExpr(r, access)
			}
		case *ast.DeclStmt, *ast.IncDecStmt, *ast.BranchStmt:
		case *ast.SwitchStmt:
			walk(t.Body)
		case *ast.CaseClause:
			for _, s := range t.Body {
				walk(s)
			}
		case *ast.TypeSwitchStmt:
			walk(t.Body)
		}
	}
	walk(fd.Body)
	for i := len(deferred) - 1; i >= 0; i-- {
		evs = append(evs, deferred[i])
	}
	return evs
}

func walkExpr(e ast.Expr, access func(ast.Expr, bool)) {
	if e == nil {
		return
	}
	ast.Inspect(e, func(n ast.Node) bool {
		switch t := n.(type) {
		case *ast.IndexExpr:
			access(t.X, false)
		case *ast.FuncLit:
			return false
		}
		return true
	})
}

func evList(evs []event) string {
	var parts []string
	for _, e := range evs {
		parts = append(parts, fmt.Sprintf(".%s %s", e.kind, strconv.Quote(e.what)))
	}
	return "[" + strings.Join(parts, ", ") + "]"
}

func recvName(fd *ast.FuncDecl) string {
	if fd.Recv == nil || len(fd.Recv.List) == 0 || len(fd.Recv.List[0].Names) == 0 {
		return ""
	}
	return fd.Recv.List[0].Names[0].Name
}

func genConcFacts() {
	var sb strings.Builder
	fmt.Fprintf(&sb, header, "context.go, plush.go, template.go, helpers/map.go, compiler.go, helper_context.go, user_function.go")
	sb.WriteString("namespace Plush.Gen\n\ninductive Ev\n  | lock (m : String) | unlock (m : String) | rd (loc : String) | wr (loc : String)\n  deriving DecidableEq, Repr\n\n")

	// context.go: every method/function touching c.data
	_, f, sha := parseFile("context.go")
	var rows []string
	for _, d := range f.Decls {
		fd, ok := d.(*ast.FuncDecl)
		if !ok || fd.Body == nil {
			continue
		}
		r := recvName(fd)
		if r == "" {
			r = "c"
		}
		evs := fnEvents(fd, map[string]string{r + ".moot": "Context.moot"}, []string{r + ".data"})
		// normalise location names
		for i := range evs {
			if strings.HasSuffix(evs[i].what, ".data") {
				evs[i].what = "Context.data"
			}
		}
		touches := false
		for _, e := range evs {
			if e.what == "Context.data" {
				touches = true
			}
		}
		if touches {
			rows = append(rows, fmt.Sprintf("  (%s, %s)", strconv.Quote(fd.Name.Name), evList(evs)))
		}
	}
	sb.WriteString("/-- context.go: per function, the lock/unlock events on the context's mutex and the accesses to its data map, in source order -/\n")
	sb.WriteString("def contextOps : List (String × List Ev) := [\n" + strings.Join(rows, ",\n") + "\n]\n\n")

	// plush.go: cache
	_, f, _ = parseFile("plush.go")
	rows = nil
	for _, d := range f.Decls {
		fd, ok := d.(*ast.FuncDecl)
		if !ok || fd.Body == nil {
			continue
		}
		evs := fnEvents(fd, map[string]string{"moot": "plush.moot"}, []string{"cache"})
		touches := false
		for _, e := range evs {
			if e.what == "cache" {
				touches = true
			}
		}
		if touches {
			rows = append(rows, fmt.Sprintf("  (%s, %s)", strconv.Quote(fd.Name.Name), evList(evs)))
		}
	}
	sb.WriteString("/-- plush.go: accesses to the global template cache -/\n")
	sb.WriteString("def cacheOps : List (String × List Ev) := [\n" + strings.Join(rows, ",\n") + "\n]\n\n")

	// compiler.go etc.: range statements, MapKeys calls, writes through AST-typed variables, writes to Template.program
	type rng struct{ fn, x string }
	var ranges []rng
	var mapKeys []string
	var astWrites []string
	var programWrites []string
	var pkgVarWrites []string
	for _, rel := range []string{"compiler.go", "helper_context.go", "user_function.go", "template.go", "partial_helper.go"} {
		_, f, _ := parseFile(rel)
		pkgVars := map[string]bool{}
		for _, d := range f.Decls {
			if gd, ok := d.(*ast.GenDecl); ok && gd.Tok == token.VAR {
				for _, s := range gd.Specs {
					for _, n := range s.(*ast.ValueSpec).Names {
						pkgVars[n.Name] = true
					}
				}
			}
		}
		for _, d := range f.Decls {
			fd, ok := d.(*ast.FuncDecl)
			if !ok || fd.Body == nil {
				continue
			}
			astVars := map[string]bool{}
			if fd.Type.Params != nil {
				for _, p := range fd.Type.Params.List {
					if strings.Contains(exprString(p.Type), "ast.") {
						for _, n := range p.Names {
							astVars[n.Name] = true
						}
					}
				}
			}
			ast.Inspect(fd.Body, func(n ast.Node) bool {
				switch t := n.(type) {
				case *ast.TypeSwitchStmt:
					// switch s := node.(type) over an AST value binds an AST-typed variable
					if as, ok := t.Assign.(*ast.AssignStmt); ok && len(as.Lhs) == 1 {
						if ta, ok := as.Rhs[0].(*ast.TypeAssertExpr); ok {
							if id, ok := ta.X.(*ast.Ident); ok && (astVars[id.Name] || id.Name == "stmt" || id.Name == "node") {
								astVars[exprString(as.Lhs[0])] = true
							}
						}
					}
				case *ast.RangeStmt:
					ranges = append(ranges, rng{fd.Name.Name, exprString(t.X)})
					if t.Value != nil {
						// ranging over AST children binds AST-typed variables
						x := exprString(t.X)
						if strings.HasPrefix(x, "node.") || strings.HasPrefix(x, "c.program.") {
							astVars[exprString(t.Value)] = true
							if t.Key != nil {
								astVars[exprString(t.Key)] = true
							}
						}
					}
				case *ast.CallExpr:
					if sel, ok := t.Fun.(*ast.SelectorExpr); ok && (sel.Sel.Name == "MapKeys" || sel.Sel.Name == "MapRange") {
						// one site per function: MapKeys and MapRange both visit a Go map in its (random) order
						if len(mapKeys) == 0 || mapKeys[len(mapKeys)-1] != fd.Name.Name {
							mapKeys = append(mapKeys, fd.Name.Name)
						}
					}
				case *ast.AssignStmt:
					for _, l := range t.Lhs {
						root := l
						for {
							switch r := root.(type) {
							case *ast.SelectorExpr:
								root = r.X
								continue
							case *ast.IndexExpr:
								root = r.X
								continue
							case *ast.StarExpr:
								root = r.X
								continue
							}
							break
						}
						id, ok := root.(*ast.Ident)
						if !ok {
							continue
						}
						if _, isSel := l.(*ast.Ident); isSel && t.Tok == token.DEFINE {
							continue
						}
						ls := exprString(l)
						if astVars[id.Name] && ls != id.Name {
							astWrites = append(astWrites, fd.Name.Name+": "+ls)
						}
						if strings.HasSuffix(ls, ".program") {
							programWrites = append(programWrites, fd.Name.Name)
						}
						if pkgVars[id.Name] && t.Tok != token.DEFINE {
							pkgVarWrites = append(pkgVarWrites, fd.Name.Name+": "+ls)
						}
					}
				}
				return true
			})
		}
	}
	sort.Slice(ranges, func(i, j int) bool {
		if ranges[i].fn != ranges[j].fn {
			return ranges[i].fn < ranges[j].fn
		}
		return ranges[i].x < ranges[j].x
	})
	var rs []string
	for _, r := range ranges {
		rs = append(rs, fmt.Sprintf("  (%s, %s)", strconv.Quote(r.fn), strconv.Quote(r.x)))
	}
	sb.WriteString("/-- every `range` statement of the evaluator files: (function, ranged expression) -/\n")
	sb.WriteString("def rangeSites : List (String × String) := [\n" + strings.Join(rs, ",\n") + "\n]\n\n")
	q := func(xs []string) string {
		sort.Strings(xs)
		var o []string
		for _, x := range xs {
			o = append(o, strconv.Quote(x))
		}
		return "[" + strings.Join(o, ", ") + "]"
	}
	sb.WriteString("/-- functions of the evaluator files that call reflect's MapKeys / MapRange (Go map order) -/\n")
	fmt.Fprintf(&sb, "def mapKeysSites : List String := %s\n\n", q(mapKeys))
	sb.WriteString("/-- assignments in the evaluator files whose target is reached through an AST-typed variable -/\n")
	fmt.Fprintf(&sb, "def astWriteSites : List String := %s\n\n", q(astWrites))
	sb.WriteString("/-- functions that assign to a Template's program field -/\n")
	fmt.Fprintf(&sb, "def programWriteSites : List String := %s\n\n", q(programWrites))
	sb.WriteString("/-- assignments to package-level variables in the evaluator files -/\n")
	fmt.Fprintf(&sb, "def packageVarWriteSites : List String := %s\n\n", q(pkgVarWrites))
	sb.WriteString("end Plush.Gen\n")
	emit("ConcFacts", "context.go, plush.go, template.go, compiler.go, …", sha, sb.String())
}

func init() {
	extraGens = append(extraGens,
		gen{"Truthy", "compiler.go", genTruthy},
		gen{"WriteCases", "compiler.go", genWriteCases},
		gen{"ConcFacts", "context.go, plush.go, compiler.go, …", genConcFacts})
}
