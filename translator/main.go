// Translator: regenerates /verif/lean/PlushModel/Gen/*.lean from /repo's working tree (DESIGN.md §4.1).
// It recognises a deliberately small subset of Go and fails closed ("untranslatable: …") on anything else.
package main

import (
	"crypto/sha256"
	"encoding/json"
	"flag"
	"fmt"
	"go/ast"
	"go/parser"
	"go/token"
	"os"
	"path/filepath"
	"sort"
	"strconv"
	"strings"
)

var repo = flag.String("repo", "/repo", "repository root")
var out = flag.String("out", "/verif/lean/PlushModel/Gen", "output directory")

type item struct {
	Name   string `json:"name"`
	Source string `json:"source"`
	Status string `json:"status"` // same | changed | untranslatable
	Detail string `json:"detail,omitempty"`
	SHA    string `json:"sha256"`
}

var items []item

type untranslatable struct{ msg string }

func fail(format string, a ...interface{}) { panic(untranslatable{fmt.Sprintf(format, a...)}) }

func parseFile(rel string) (*token.FileSet, *ast.File, string) {
	path := filepath.Join(*repo, rel)
	src, err := os.ReadFile(path)
	if err != nil {
		fail("cannot read %s: %v", rel, err)
	}
	fset := token.NewFileSet()
	f, err := parser.ParseFile(fset, path, src, parser.ParseComments)
	if err != nil {
		fail("cannot parse %s: %v", rel, err)
	}
	return fset, f, fmt.Sprintf("%x", sha256.Sum256(src))
}

func findFunc(f *ast.File, name string) *ast.FuncDecl {
	for _, d := range f.Decls {
		if fd, ok := d.(*ast.FuncDecl); ok && fd.Name.Name == name {
			return fd
		}
	}
	return nil
}

// emit writes the file only when its content differs (lake hashes contents, so an unchanged
// regeneration costs nothing) and records same/changed relative to what was on disk.
func emit(name, source, sha, body string) {
	path := filepath.Join(*out, name+".lean")
	old, _ := os.ReadFile(path)
	status := "same"
	if string(old) != body {
		status = "changed"
		if err := os.WriteFile(path, []byte(body), 0o644); err != nil {
			fmt.Fprintln(os.Stderr, "write:", err)
			os.Exit(2)
		}
	}
	items = append(items, item{Name: name, Source: source, Status: status, SHA: sha})
}

func guarded(name, source string, f func()) {
	defer func() {
		if r := recover(); r != nil {
			if u, ok := r.(untranslatable); ok {
				items = append(items, item{Name: name, Source: source, Status: "untranslatable", Detail: u.msg})
				return
			}
			panic(r)
		}
	}()
	f()
}

func main() {
	flag.Parse()
	os.MkdirAll(*out, 0o755)
	guarded("CharClasses", "lexer/lexer.go", genCharClasses)
	guarded("Keywords", "token/token.go", genKeywords)
	guarded("Precedences", "parser/precedences.go", genPrecedences)
	guarded("ParseFns", "parser/parser.go", genParseFns)
	for _, g := range extraGens {
		guarded(g.name, g.source, g.f)
	}
	sort.Slice(items, func(i, j int) bool { return items[i].Name < items[j].Name })
	enc := json.NewEncoder(os.Stdout)
	enc.SetIndent("", " ")
	enc.Encode(items)
}

type gen struct {
	name, source string
	f            func()
}

var extraGens []gen

// ---------- expression translation: Go bool/byte/int expressions over one variable ----------

func charVal(lit *ast.BasicLit) int {
	switch lit.Kind {
	case token.CHAR:
		s, err := strconv.Unquote(lit.Value)
		if err != nil || len(s) != 1 {
			fail("char literal %s", lit.Value)
		}
		return int(s[0])
	case token.INT:
		n, err := strconv.Atoi(lit.Value)
		if err != nil {
			fail("int literal %s", lit.Value)
		}
		return n
	}
	fail("literal %s", lit.Value)
	return 0
}

// boolExpr translates a Go boolean expression over byte variable `v` (spelled goName in Go) to Lean Bool.
func boolExpr(e ast.Expr, goName, v string) string {
	switch t := e.(type) {
	case *ast.ParenExpr:
		return boolExpr(t.X, goName, v)
	case *ast.BinaryExpr:
		switch t.Op {
		case token.LOR:
			return "(" + boolExpr(t.X, goName, v) + " || " + boolExpr(t.Y, goName, v) + ")"
		case token.LAND:
			return "(" + boolExpr(t.X, goName, v) + " && " + boolExpr(t.Y, goName, v) + ")"
		case token.EQL:
			return "(" + byteExpr(t.X, goName, v) + " == " + byteExpr(t.Y, goName, v) + ")"
		case token.NEQ:
			return "(" + byteExpr(t.X, goName, v) + " != " + byteExpr(t.Y, goName, v) + ")"
		case token.LEQ:
			return "decide (" + byteExpr(t.X, goName, v) + " ≤ " + byteExpr(t.Y, goName, v) + ")"
		case token.LSS:
			return "decide (" + byteExpr(t.X, goName, v) + " < " + byteExpr(t.Y, goName, v) + ")"
		case token.GEQ:
			return "decide (" + byteExpr(t.X, goName, v) + " ≥ " + byteExpr(t.Y, goName, v) + ")"
		case token.GTR:
			return "decide (" + byteExpr(t.X, goName, v) + " > " + byteExpr(t.Y, goName, v) + ")"
		}
		fail("boolean operator %s", t.Op)
	case *ast.UnaryExpr:
		if t.Op == token.NOT {
			return "(!" + boolExpr(t.X, goName, v) + ")"
		}
	}
	fail("boolean expression %T", e)
	return ""
}

func byteExpr(e ast.Expr, goName, v string) string {
	switch t := e.(type) {
	case *ast.ParenExpr:
		return byteExpr(t.X, goName, v)
	case *ast.BasicLit:
		return strconv.Itoa(charVal(t))
	case *ast.Ident:
		if t.Name == goName {
			return v
		}
	case *ast.SelectorExpr:
		if exprString(t) == goName {
			return v
		}
	}
	fail("byte expression %s", exprString(e))
	return ""
}

func exprString(e ast.Expr) string {
	switch t := e.(type) {
	case *ast.Ident:
		return t.Name
	case *ast.SelectorExpr:
		return exprString(t.X) + "." + t.Sel.Name
	case *ast.BasicLit:
		return t.Value
	case *ast.CallExpr:
		return exprString(t.Fun) + "(…)"
	case *ast.StarExpr:
		return "*" + exprString(t.X)
	case *ast.ParenExpr:
		return "(" + exprString(t.X) + ")"
	case *ast.UnaryExpr:
		return t.Op.String() + exprString(t.X)
	case *ast.BinaryExpr:
		return exprString(t.X) + " " + t.Op.String() + " " + exprString(t.Y)
	case *ast.IndexExpr:
		return exprString(t.X) + "[" + exprString(t.Index) + "]"
	case *ast.TypeAssertExpr:
		return exprString(t.X) + ".(" + exprString(t.Type) + ")"
	case *ast.ArrayType:
		return "[]" + exprString(t.Elt)
	case *ast.InterfaceType:
		return "interface{}"
	case *ast.MapType:
		return "map[" + exprString(t.Key) + "]" + exprString(t.Value)
	case *ast.FuncLit:
		return "func(){…}"
	case *ast.CompositeLit:
		return exprString(t.Type) + "{…}"
	}
	return fmt.Sprintf("<%T>", e)
}

func singleReturnBool(fd *ast.FuncDecl) ast.Expr {
	if fd == nil || fd.Body == nil || len(fd.Body.List) != 1 {
		fail("function is not a single return")
	}
	rs, ok := fd.Body.List[0].(*ast.ReturnStmt)
	if !ok || len(rs.Results) != 1 {
		fail("function is not a single return")
	}
	return rs.Results[0]
}

const header = "-- GENERATED by /verif/translator from /repo/%s — do not edit\n"

func genCharClasses() {
	_, f, sha := parseFile("lexer/lexer.go")
	var sb strings.Builder
	fmt.Fprintf(&sb, header, "lexer/lexer.go")
	sb.WriteString("namespace Plush.Gen\n\n")
	for _, name := range []string{"isLetter", "isDigit", "isDot"} {
		fd := findFunc(f, name)
		if fd == nil {
			fail("func %s not found", name)
		}
		if len(fd.Type.Params.List) != 1 || len(fd.Type.Params.List[0].Names) != 1 {
			fail("%s: parameters", name)
		}
		p := fd.Type.Params.List[0].Names[0].Name
		fmt.Fprintf(&sb, "def %s (ch : UInt8) : Bool :=\n  %s\n\n", name, boolExpr(singleReturnBool(fd), p, "ch"))
	}
	// skipWhitespace: the condition of its for loop
	fd := findFunc(f, "skipWhitespace")
	if fd == nil {
		fail("func skipWhitespace not found")
	}
	var cond ast.Expr
	for _, st := range fd.Body.List {
		if fs, ok := st.(*ast.ForStmt); ok && fs.Init == nil && fs.Post == nil {
			cond = fs.Cond
		}
	}
	if cond == nil {
		fail("skipWhitespace: no loop")
	}
	fmt.Fprintf(&sb, "def isWhitespace (ch : UInt8) : Bool :=\n  %s\n\n", boolExpr(cond, "l.ch", "ch"))
	sb.WriteString("end Plush.Gen\n")
	emit("CharClasses", "lexer/lexer.go", sha, sb.String())
}

// token constant names of token/const.go: value -> name
func tokenConsts() map[string]string {
	_, f, _ := parseFile("token/const.go")
	m := map[string]string{}
	for _, d := range f.Decls {
		gd, ok := d.(*ast.GenDecl)
		if !ok || gd.Tok != token.CONST {
			continue
		}
		for _, s := range gd.Specs {
			vs := s.(*ast.ValueSpec)
			for i, n := range vs.Names {
				if i < len(vs.Values) {
					if bl, ok := vs.Values[i].(*ast.BasicLit); ok && bl.Kind == token.STRING {
						v, _ := strconv.Unquote(bl.Value)
						_ = v
						m[n.Name] = v
					}
				}
			}
		}
	}
	return m
}

func tokRef(e ast.Expr) string {
	// token.X or X
	switch t := e.(type) {
	case *ast.SelectorExpr:
		return "TT." + t.Sel.Name
	case *ast.Ident:
		return "TT." + t.Name
	}
	fail("token reference %s", exprString(e))
	return ""
}

func genKeywords() {
	_, f, sha := parseFile("token/token.go")
	var lit *ast.CompositeLit
	for _, d := range f.Decls {
		gd, ok := d.(*ast.GenDecl)
		if !ok || gd.Tok != token.VAR {
			continue
		}
		for _, s := range gd.Specs {
			vs := s.(*ast.ValueSpec)
			if len(vs.Names) == 1 && vs.Names[0].Name == "keywords" && len(vs.Values) == 1 {
				lit, _ = vs.Values[0].(*ast.CompositeLit)
			}
		}
	}
	if lit == nil {
		fail("var keywords not found")
	}
	type kv struct{ k, v string }
	var kvs []kv
	for _, el := range lit.Elts {
		p, ok := el.(*ast.KeyValueExpr)
		if !ok {
			fail("keywords entry")
		}
		k, ok := p.Key.(*ast.BasicLit)
		if !ok {
			fail("keywords key")
		}
		ks, _ := strconv.Unquote(k.Value)
		kvs = append(kvs, kv{ks, tokRef(p.Value)})
	}
	sort.Slice(kvs, func(i, j int) bool { return kvs[i].k < kvs[j].k })
	var sb strings.Builder
	fmt.Fprintf(&sb, header, "token/token.go")
	sb.WriteString("import PlushModel.Token\nnamespace Plush.Gen\n\ndef keywords : List (String × TT) := [\n")
	for i, p := range kvs {
		c := ","
		if i == len(kvs)-1 {
			c = ""
		}
		fmt.Fprintf(&sb, "  (%s, %s)%s\n", strconv.Quote(p.k), p.v, c)
	}
	sb.WriteString("]\n\nend Plush.Gen\n")
	emit("Keywords", "token/token.go", sha, sb.String())
}

func genPrecedences() {
	_, f, sha := parseFile("parser/precedences.go")
	var sb strings.Builder
	fmt.Fprintf(&sb, header, "parser/precedences.go")
	sb.WriteString("import PlushModel.Token\nnamespace Plush.Gen\n\n")
	found := false
	for _, d := range f.Decls {
		gd, ok := d.(*ast.GenDecl)
		if !ok {
			continue
		}
		if gd.Tok == token.CONST {
			// iota block: `_ int = iota` then names
			for i, s := range gd.Specs {
				vs := s.(*ast.ValueSpec)
				if i == 0 {
					if len(vs.Values) != 1 || exprString(vs.Values[0]) != "iota" {
						fail("precedence constants are not an iota block")
					}
				} else if len(vs.Values) != 0 {
					fail("precedence constant with explicit value")
				}
				for _, n := range vs.Names {
					if n.Name != "_" {
						fmt.Fprintf(&sb, "def %s : Nat := %d\n", n.Name, i)
					}
				}
			}
		}
		if gd.Tok == token.VAR {
			for _, s := range gd.Specs {
				vs := s.(*ast.ValueSpec)
				if len(vs.Names) == 1 && vs.Names[0].Name == "precedences" {
					lit, ok := vs.Values[0].(*ast.CompositeLit)
					if !ok {
						fail("precedences is not a literal")
					}
					found = true
					sb.WriteString("\ndef precedences : List (TT × Nat) := [\n")
					for i, el := range lit.Elts {
						p := el.(*ast.KeyValueExpr)
						lv, ok := p.Value.(*ast.Ident)
						if !ok {
							fail("precedence level %s", exprString(p.Value))
						}
						c := ","
						if i == len(lit.Elts)-1 {
							c = ""
						}
						fmt.Fprintf(&sb, "  (%s, %s)%s\n", tokRef(p.Key), lv.Name, c)
					}
					sb.WriteString("]\n")
				}
			}
		}
	}
	if !found {
		fail("var precedences not found")
	}
	sb.WriteString("\nend Plush.Gen\n")
	emit("Precedences", "parser/precedences.go", sha, sb.String())
}

func genParseFns() {
	_, f, sha := parseFile("parser/parser.go")
	fd := findFunc(f, "newParser")
	if fd == nil {
		fail("newParser not found")
	}
	var pre, inf []string
	for _, st := range fd.Body.List {
		es, ok := st.(*ast.ExprStmt)
		if !ok {
			continue
		}
		ce, ok := es.X.(*ast.CallExpr)
		if !ok {
			continue
		}
		fn := exprString(ce.Fun)
		if fn != "p.registerPrefix" && fn != "p.registerInfix" {
			continue
		}
		if len(ce.Args) != 2 {
			fail("register call arity")
		}
		var name string
		switch a := ce.Args[1].(type) {
		case *ast.SelectorExpr:
			name = a.Sel.Name
		case *ast.FuncLit:
			// only `func() ast.Expression { return nil }` is accepted
			if len(a.Body.List) == 1 {
				if rs, ok := a.Body.List[0].(*ast.ReturnStmt); ok && len(rs.Results) == 1 && exprString(rs.Results[0]) == "nil" {
					name = "returnNil"
				}
			}
			if name == "" {
				fail("registered function literal is not `return nil`")
			}
		default:
			fail("registered function %s", exprString(ce.Args[1]))
		}
		if fn == "p.registerPrefix" {
			pre = append(pre, fmt.Sprintf("  (%s, PrefixFn.%s)", tokRef(ce.Args[0]), name))
		} else {
			inf = append(inf, fmt.Sprintf("  (%s, InfixFn.%s)", tokRef(ce.Args[0]), name))
		}
	}
	var sb strings.Builder
	fmt.Fprintf(&sb, header, "parser/parser.go (newParser)")
	sb.WriteString("import PlushModel.Token\nimport PlushModel.ParseFnNames\nnamespace Plush.Gen\n\n")
	sb.WriteString("def prefixFns : List (TT × PrefixFn) := [\n" + strings.Join(pre, ",\n") + "\n]\n\n")
	sb.WriteString("def infixFns : List (TT × InfixFn) := [\n" + strings.Join(inf, ",\n") + "\n]\n\n")
	sb.WriteString("end Plush.Gen\n")
	emit("ParseFns", "parser/parser.go", sha, sb.String())
}
