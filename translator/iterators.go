package main

import (
	"fmt"
	"go/ast"
	"go/token"
	"strings"
)

// Translation of the `ranger` iterator (both shipped copies) into Lean over Go's 64-bit int:
// straight-line code with if/else, field assignment, ++ and return, executed symbolically.

type symState struct {
	fields map[string]string // field -> Lean Int/Bool expression
	locals map[string]string
	recv   string
}

func (s *symState) clone() *symState {
	n := &symState{fields: map[string]string{}, locals: map[string]string{}, recv: s.recv}
	for k, v := range s.fields {
		n.fields[k] = v
	}
	for k, v := range s.locals {
		n.locals[k] = v
	}
	return n
}

func leanField(f string) string {
	if f == "end" {
		return "end_"
	}
	return f
}

// intExpr / condExpr: Go int and bool expressions over parameters, locals and receiver fields
func (s *symState) intExpr(e ast.Expr) string {
	switch t := e.(type) {
	case *ast.ParenExpr:
		return s.intExpr(t.X)
	case *ast.BasicLit:
		if t.Kind == token.INT {
			return "(" + t.Value + " : Int)"
		}
	case *ast.UnaryExpr:
		if t.Op == token.SUB {
			return "(-" + s.intExpr(t.X) + ")"
		}
	case *ast.Ident:
		if v, ok := s.locals[t.Name]; ok {
			return v
		}
		return t.Name
	case *ast.SelectorExpr:
		x := exprString(t)
		if x == "math.MaxInt" || x == "math.MaxInt64" {
			return "maxInt"
		}
		if x == "math.MinInt" || x == "math.MinInt64" {
			return "minInt"
		}
		if id, ok := t.X.(*ast.Ident); ok && id.Name == s.recv {
			if v, ok := s.fields[t.Sel.Name]; ok {
				return v
			}
		}
	case *ast.BinaryExpr:
		switch t.Op {
		case token.ADD:
			return "(wrap64 (" + s.intExpr(t.X) + " + " + s.intExpr(t.Y) + "))"
		case token.SUB:
			return "(wrap64 (" + s.intExpr(t.X) + " - " + s.intExpr(t.Y) + "))"
		}
	}
	fail("iterator int expression %s", exprString(e))
	return ""
}

func (s *symState) condExpr(e ast.Expr) string {
	switch t := e.(type) {
	case *ast.ParenExpr:
		return s.condExpr(t.X)
	case *ast.UnaryExpr:
		if t.Op == token.NOT {
			return "(!" + s.condExpr(t.X) + ")"
		}
	case *ast.SelectorExpr:
		if id, ok := t.X.(*ast.Ident); ok && id.Name == s.recv {
			if v, ok := s.fields[t.Sel.Name]; ok {
				return v
			}
		}
	case *ast.Ident:
		if t.Name == "true" || t.Name == "false" {
			return t.Name
		}
	case *ast.BinaryExpr:
		switch t.Op {
		case token.LOR:
			return "(" + s.condExpr(t.X) + " || " + s.condExpr(t.Y) + ")"
		case token.LAND:
			return "(" + s.condExpr(t.X) + " && " + s.condExpr(t.Y) + ")"
		case token.LSS:
			return "decide (" + s.intExpr(t.X) + " < " + s.intExpr(t.Y) + ")"
		case token.GTR:
			return "decide (" + s.intExpr(t.X) + " > " + s.intExpr(t.Y) + ")"
		case token.LEQ:
			return "decide (" + s.intExpr(t.X) + " ≤ " + s.intExpr(t.Y) + ")"
		case token.GEQ:
			return "decide (" + s.intExpr(t.X) + " ≥ " + s.intExpr(t.Y) + ")"
		case token.EQL:
			return "(" + s.intExpr(t.X) + " == " + s.intExpr(t.Y) + ")"
		case token.NEQ:
			return "(" + s.intExpr(t.X) + " != " + s.intExpr(t.Y) + ")"
		}
	}
	fail("iterator condition %s", exprString(e))
	return ""
}

func (s *symState) rangerTerm() string {
	return fmt.Sprintf("{ pos := %s, end_ := %s, done := %s }", s.fields["pos"], s.fields["end"], s.fields["done"])
}

// exec runs a statement list; returns the Lean term of type `Ranger × Option Int`
func (s *symState) exec(stmts []ast.Stmt) string {
	if len(stmts) == 0 {
		fail("iterator method falls off its end")
	}
	st, rest := stmts[0], stmts[1:]
	switch t := st.(type) {
	case *ast.ReturnStmt:
		if len(t.Results) != 1 {
			fail("iterator return arity")
		}
		if id, ok := t.Results[0].(*ast.Ident); ok && id.Name == "nil" {
			return "(" + s.rangerTerm() + ", none)"
		}
		return "(" + s.rangerTerm() + ", some " + s.intExpr(t.Results[0]) + ")"
	case *ast.AssignStmt:
		if len(t.Lhs) != 1 || len(t.Rhs) != 1 {
			fail("iterator assignment shape")
		}
		if t.Tok == token.DEFINE {
			id, ok := t.Lhs[0].(*ast.Ident)
			if !ok {
				fail("iterator define target")
			}
			s.locals[id.Name] = s.intExpr(t.Rhs[0])
			return s.exec(rest)
		}
		sel, ok := t.Lhs[0].(*ast.SelectorExpr)
		if !ok || exprString(sel.X) != s.recv {
			fail("iterator assignment target %s", exprString(t.Lhs[0]))
		}
		if sel.Sel.Name == "done" {
			s.fields["done"] = s.condExpr(t.Rhs[0])
		} else {
			s.fields[sel.Sel.Name] = s.intExpr(t.Rhs[0])
		}
		return s.exec(rest)
	case *ast.IncDecStmt:
		sel, ok := t.X.(*ast.SelectorExpr)
		if !ok || exprString(sel.X) != s.recv || t.Tok != token.INC {
			fail("iterator ++ target")
		}
		s.fields[sel.Sel.Name] = "(wrap64 (" + s.fields[sel.Sel.Name] + " + 1))"
		return s.exec(rest)
	case *ast.IfStmt:
		if t.Init != nil {
			fail("iterator if with init")
		}
		c := s.condExpr(t.Cond)
		thenS := s.clone()
		thenT := thenS.exec(append(append([]ast.Stmt{}, t.Body.List...), rest...))
		elseS := s.clone()
		var elseStmts []ast.Stmt
		if t.Else != nil {
			blk, ok := t.Else.(*ast.BlockStmt)
			if !ok {
				fail("iterator else-if")
			}
			elseStmts = blk.List
		}
		elseT := elseS.exec(append(append([]ast.Stmt{}, elseStmts...), rest...))
		return "(if " + c + " then " + thenT + " else " + elseT + ")"
	}
	fail("iterator statement %T", st)
	return ""
}

// constructor body: optional `if COND { return &ranger{…} }` then `return &ranger{…}`
func ctorTerm(fd *ast.FuncDecl) string {
	s := &symState{fields: map[string]string{}, locals: map[string]string{}, recv: "\x00"}
	var walk func(stmts []ast.Stmt) string
	lit := func(e ast.Expr) string {
		u, ok := e.(*ast.UnaryExpr)
		if !ok || u.Op != token.AND {
			fail("constructor returns %s", exprString(e))
		}
		cl, ok := u.X.(*ast.CompositeLit)
		if !ok || exprString(cl.Type) != "ranger" {
			fail("constructor returns %s", exprString(e))
		}
		f := map[string]string{"pos": "(0 : Int)", "end": "(0 : Int)", "done": "false"}
		for _, el := range cl.Elts {
			kv, ok := el.(*ast.KeyValueExpr)
			if !ok {
				fail("ranger literal without field names")
			}
			k := exprString(kv.Key)
			if k == "done" {
				f[k] = s.condExpr(kv.Value)
			} else {
				f[k] = s.intExpr(kv.Value)
			}
		}
		return fmt.Sprintf("{ pos := %s, end_ := %s, done := %s }", f["pos"], f["end"], f["done"])
	}
	walk = func(stmts []ast.Stmt) string {
		if len(stmts) == 0 {
			fail("constructor falls off its end")
		}
		switch t := stmts[0].(type) {
		case *ast.ReturnStmt:
			return lit(t.Results[0])
		case *ast.IfStmt:
			if t.Else != nil || t.Init != nil {
				fail("constructor if shape")
			}
			return "(if " + s.condExpr(t.Cond) + " then " + walk(t.Body.List) + " else " + walk(stmts[1:]) + ")"
		}
		fail("constructor statement %T", stmts[0])
		return ""
	}
	return walk(fd.Body.List)
}

func params(fd *ast.FuncDecl) string {
	var ps []string
	for _, f := range fd.Type.Params.List {
		for _, n := range f.Names {
			ps = append(ps, n.Name)
		}
	}
	return "(" + strings.Join(ps, " ") + " : Int)"
}

func genIteratorCopy(sb *strings.Builder, ns string, files []string, names map[string]string) {
	var nextFd *ast.FuncDecl
	ctors := map[string]*ast.FuncDecl{}
	for _, rel := range files {
		_, f, _ := parseFile(rel)
		for _, d := range f.Decls {
			fd, ok := d.(*ast.FuncDecl)
			if !ok {
				continue
			}
			if fd.Recv != nil && fd.Name.Name == "Next" && strings.Contains(exprString(fd.Recv.List[0].Type), "ranger") {
				nextFd = fd
			}
			for lean, goName := range names {
				if fd.Recv == nil && fd.Name.Name == goName {
					ctors[lean] = fd
				}
			}
		}
	}
	if nextFd == nil {
		fail("%s: (*ranger).Next not found", ns)
	}
	recv := nextFd.Recv.List[0].Names[0].Name
	s := &symState{fields: map[string]string{"pos": "r.pos", "end": "r.end_", "done": "r.done"}, locals: map[string]string{}, recv: recv}
	fmt.Fprintf(sb, "namespace %s\n\ndef next (r : Ranger) : Ranger × Option Int :=\n  %s\n\n", ns, s.exec(nextFd.Body.List))
	for _, lean := range []string{"Range", "Between", "Until"} {
		fd := ctors[lean]
		if fd == nil {
			fail("%s: constructor %s not found", ns, names[lean])
		}
		fmt.Fprintf(sb, "def %s %s : Ranger :=\n  %s\n\n", lean, params(fd), ctorTerm(fd))
	}
	fmt.Fprintf(sb, "end %s\n\n", ns)
}

func genIterators() {
	var sb strings.Builder
	fmt.Fprintf(&sb, header, "helpers/iterators/{range,between,until}.go and iterators.go")
	sb.WriteString("import PlushModel.Value\nnamespace Plush.Gen\n\n")
	sb.WriteString("structure Ranger where\n  pos : Int\n  end_ : Int\n  done : Bool\n  deriving DecidableEq, Repr\n\n")
	sb.WriteString("def maxInt : Int := 9223372036854775807\ndef minInt : Int := -9223372036854775808\n\n")
	genIteratorCopy(&sb, "Helpers", []string{"helpers/iterators/range.go", "helpers/iterators/between.go", "helpers/iterators/until.go"},
		map[string]string{"Range": "Range", "Between": "Between", "Until": "Until"})
	genIteratorCopy(&sb, "Root", []string{"iterators.go"},
		map[string]string{"Range": "rangeHelper", "Between": "betweenHelper", "Until": "untilHelper"})
	sb.WriteString("end Plush.Gen\n")
	_, _, sha := parseFile("helpers/iterators/range.go")
	emit("Iterators", "helpers/iterators/*.go, iterators.go", sha, sb.String())
}

func init() {
	extraGens = append(extraGens, gen{"Iterators", "helpers/iterators/*.go, iterators.go", genIterators})
}
