module veriftranslator

go 1.21
