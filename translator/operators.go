package main

import (
	"fmt"
	"go/ast"
	"go/token"
	"strconv"
	"strings"
)

// Translation of the operator tables of compiler.go (intsOperator, floatsOperator, stringsOperator,
// boolsOperator, nilsOperator) and of toleratedOperandError into Lean (PlushModel/Gen/Operators.lean).

// byteLit renders a Go string constant as a Lean byte list (kernel-friendly, unlike String equality)
func byteLit(v string) string {
	parts := make([]string, len(v))
	for i := 0; i < len(v); i++ {
		parts[i] = strconv.Itoa(int(v[i]))
	}
	return "[" + strings.Join(parts, ", ") + "]"
}

type opKind int

const (
	opInt opKind = iota
	opFloat
	opString
	opBool
	opNil
)

func opCases(fd *ast.FuncDecl) []*ast.CaseClause {
	var sw *ast.SwitchStmt
	for _, st := range fd.Body.List {
		if s, ok := st.(*ast.SwitchStmt); ok {
			if sw != nil {
				fail("%s: more than one switch", fd.Name.Name)
			}
			sw = s
		}
	}
	if sw == nil || exprString(sw.Tag) != "op" {
		fail("%s: no `switch op`", fd.Name.Name)
	}
	var out []*ast.CaseClause
	for _, c := range sw.Body.List {
		out = append(out, c.(*ast.CaseClause))
	}
	return out
}

// result expression of a row: `return EXPR, nil`
func opResult(k opKind, fn string, e ast.Expr, l, r string) string {
	// regexp row of stringsOperator: x.MatchString(l)
	if ce, ok := e.(*ast.CallExpr); ok && strings.HasSuffix(exprString(ce.Fun), ".MatchString") {
		return ".regex"
	}
	be, ok := e.(*ast.BinaryExpr)
	if !ok {
		fail("%s: row result %s", fn, exprString(e))
	}
	x, y := exprString(be.X), exprString(be.Y)
	operand := func(s string) string {
		switch s {
		case l:
			return "l"
		case r:
			return "r"
		}
		fail("%s: operand %s", fn, s)
		return ""
	}
	a, b := operand(x), operand(y)
	switch k {
	case opInt:
		switch be.Op {
		case token.ADD:
			return fmt.Sprintf(".int (wrap64 (%s + %s))", a, b)
		case token.SUB:
			return fmt.Sprintf(".int (wrap64 (%s - %s))", a, b)
		case token.MUL:
			return fmt.Sprintf(".int (wrap64 (%s * %s))", a, b)
		case token.QUO:
			return fmt.Sprintf(".int (goDiv %s %s)", a, b)
		case token.LSS:
			return fmt.Sprintf(".bool (decide (%s < %s))", a, b)
		case token.GTR:
			return fmt.Sprintf(".bool (decide (%s > %s))", a, b)
		case token.LEQ:
			return fmt.Sprintf(".bool (decide (%s ≤ %s))", a, b)
		case token.GEQ:
			return fmt.Sprintf(".bool (decide (%s ≥ %s))", a, b)
		case token.EQL:
			return fmt.Sprintf(".bool (%s == %s)", a, b)
		case token.NEQ:
			return fmt.Sprintf(".bool (%s != %s)", a, b)
		}
	case opFloat:
		switch be.Op {
		case token.ADD:
			return fmt.Sprintf(".float (Dyadic.add %s %s)", a, b)
		case token.SUB:
			return fmt.Sprintf(".float (Dyadic.sub %s %s)", a, b)
		case token.MUL:
			return fmt.Sprintf(".float (Dyadic.mul %s %s)", a, b)
		case token.QUO:
			return fmt.Sprintf(".floatDiv %s %s", a, b)
		case token.LSS:
			return fmt.Sprintf(".bool (Dyadic.lt %s %s)", a, b)
		case token.GTR:
			return fmt.Sprintf(".bool (Dyadic.lt %s %s)", b, a)
		case token.LEQ:
			return fmt.Sprintf(".bool (!Dyadic.lt %s %s)", b, a)
		case token.GEQ:
			return fmt.Sprintf(".bool (!Dyadic.lt %s %s)", a, b)
		case token.EQL:
			return fmt.Sprintf(".bool (%s == %s)", a, b)
		case token.NEQ:
			return fmt.Sprintf(".bool (%s != %s)", a, b)
		}
	case opString:
		switch be.Op {
		case token.ADD:
			return fmt.Sprintf(".str (%s ++ %s)", a, b)
		case token.LSS:
			return fmt.Sprintf(".bool (bytesLt %s %s)", a, b)
		case token.GTR:
			return fmt.Sprintf(".bool (bytesLt %s %s)", b, a)
		case token.LEQ:
			return fmt.Sprintf(".bool (!bytesLt %s %s)", b, a)
		case token.GEQ:
			return fmt.Sprintf(".bool (!bytesLt %s %s)", a, b)
		case token.EQL:
			return fmt.Sprintf(".bool (%s == %s)", a, b)
		case token.NEQ:
			return fmt.Sprintf(".bool (%s != %s)", a, b)
		}
	case opBool:
		switch be.Op {
		case token.LAND:
			return fmt.Sprintf(".bool (%s && %s)", a, b)
		case token.LOR:
			return fmt.Sprintf(".bool (%s || %s)", a, b)
		case token.EQL:
			return fmt.Sprintf(".bool (%s == %s)", a, b)
		case token.NEQ:
			return fmt.Sprintf(".bool (%s != %s)", a, b)
		}
	case opNil:
		// two interface values of which at least one is nil: equal iff both are nil
		if a == "l" && b == "r" {
			switch be.Op {
			case token.EQL:
				return ".bool bothNil"
			case token.NEQ:
				return ".bool (!bothNil)"
			}
		}
	}
	fail("%s: operator %s in row result", fn, be.Op)
	return ""
}

func genOpTable(sb *strings.Builder, f *ast.File, fn string, k opKind, leanSig, l, r string) {
	fd := findFunc(f, fn)
	if fd == nil {
		fail("func %s not found", fn)
	}
	fmt.Fprintf(sb, "def %s %s : OpOut :=\n", fn, leanSig)
	first := true
	for _, cc := range opCases(fd) {
		if cc.List == nil {
			// default row
			if len(cc.Body) != 1 {
				fail("%s: default row", fn)
			}
			continue
		}
		var conds []string
		for _, e := range cc.List {
			bl, ok := e.(*ast.BasicLit)
			if !ok || bl.Kind != token.STRING {
				fail("%s: case label %s", fn, exprString(e))
			}
			v, _ := strconv.Unquote(bl.Value)
			conds = append(conds, fmt.Sprintf("op == %s /- %s -/", byteLit(v), v))
		}
		// body: optional zero guard, optional regexp compile, then the return
		guard := ""
		var ret *ast.ReturnStmt
		for _, st := range cc.Body {
			switch t := st.(type) {
			case *ast.IfStmt:
				c := exprString(t.Cond)
				if c == r+" == 0" {
					if k == opFloat {
						guard = "Dyadic.isZero r"
					} else {
						guard = "r == 0"
					}
				} else if c == "err != nil" {
					// regexp.Compile failure (outside the model: .regex)
				} else {
					fail("%s: guard %s", fn, c)
				}
			case *ast.AssignStmt:
				// x, err := regexp.Compile(rr)
			case *ast.ReturnStmt:
				ret = t
			default:
				fail("%s: statement %T in row", fn, st)
			}
		}
		if ret == nil || len(ret.Results) != 2 || exprString(ret.Results[1]) != "nil" {
			fail("%s: row does not end in `return x, nil`", fn)
		}
		res := opResult(k, fn, ret.Results[0], l, r)
		if guard != "" {
			res = "(if " + guard + " then .divZero else " + res + ")"
		}
		kw := "  else if "
		if first {
			kw = "  if "
			first = false
		}
		fmt.Fprintf(sb, "%s%s then %s\n", kw, strings.Join(conds, " || "), res)
	}
	sb.WriteString("  else .unknownOp\n\n")
}

func genOperators() {
	_, f, sha := parseFile("compiler.go")
	var sb strings.Builder
	fmt.Fprintf(&sb, header, "compiler.go (intsOperator, floatsOperator, stringsOperator, boolsOperator, nilsOperator, toleratedOperandError)")
	sb.WriteString("import PlushModel.OpOut\nnamespace Plush.Gen\n\n")
	genOpTable(&sb, f, "intsOperator", opInt, "(op : Bytes) (l r : Int)", "l", "r")
	genOpTable(&sb, f, "floatsOperator", opFloat, "(op : Bytes) (l r : Dyadic)", "l", "r")
	// stringsOperator(l string, r interface{}, op): rr := fmt.Sprint(r); rows use l and rr
	genOpTable(&sb, f, "stringsOperator", opString, "(op : Bytes) (l r : Bytes)", "l", "rr")
	// boolsOperator: lt := isTruthy(l); rt := isTruthy(r); rows use lt and rt
	genOpTable(&sb, f, "boolsOperator", opBool, "(op : Bytes) (l r : Bool)", "lt", "rt")
	genOpTable(&sb, f, "nilsOperator", opNil, "(op : Bytes) (bothNil : Bool)", "l", "r")

	// toleratedOperandError(operator, err): type assertion on *ErrUnknownIdentifier, then a switch on the operator
	fd := findFunc(f, "toleratedOperandError")
	if fd == nil {
		fail("func toleratedOperandError not found")
	}
	onlyUnknown := false
	var ops []string
	for _, st := range fd.Body.List {
		switch t := st.(type) {
		case *ast.IfStmt:
			if as, ok := t.Init.(*ast.AssignStmt); ok && len(as.Rhs) == 1 {
				if ta, ok := as.Rhs[0].(*ast.TypeAssertExpr); ok && exprString(ta.Type) == "*ErrUnknownIdentifier" && exprString(t.Cond) == "!ok" {
					if len(t.Body.List) == 1 && exprString(t.Body.List[0].(*ast.ReturnStmt).Results[0]) == "false" {
						onlyUnknown = true
					}
				}
			}
		case *ast.SwitchStmt:
			for _, c := range t.Body.List {
				cc := c.(*ast.CaseClause)
				if len(cc.Body) == 1 {
					if rs, ok := cc.Body[0].(*ast.ReturnStmt); ok && exprString(rs.Results[0]) == "true" {
						for _, e := range cc.List {
							v, _ := strconv.Unquote(e.(*ast.BasicLit).Value)
							ops = append(ops, byteLit(v)+" /- "+v+" -/")
						}
					}
				}
			}
		}
	}
	if !onlyUnknown {
		fail("toleratedOperandError does not start with the *ErrUnknownIdentifier guard")
	}
	sb.WriteString("/-- operators under which an operand's evaluation error is tolerated (`toleratedOperandError`) -/\n")
	fmt.Fprintf(&sb, "def tolerantOps : List Bytes := [%s]\n\n", strings.Join(ops, ", "))
	sb.WriteString("/-- … and only when the error is an `*ErrUnknownIdentifier` (the type assertion that guards the switch) -/\n")
	sb.WriteString("def tolerantOnlyUnknownIdent : Bool := true\n\n")
	// the three other tolerant sites: evalPrefixExpression, evalIfExpression, evalElseAndElseIfExpressions
	var sites []string
	for _, name := range []string{"evalPrefixExpression", "evalIfExpression", "evalElseAndElseIfExpressions"} {
		fd := findFunc(f, name)
		if fd == nil {
			fail("func %s not found", name)
		}
		n := 0
		ast.Inspect(fd, func(nd ast.Node) bool {
			if ifs, ok := nd.(*ast.IfStmt); ok {
				if as, ok := ifs.Init.(*ast.AssignStmt); ok && len(as.Rhs) == 1 {
					if ta, ok := as.Rhs[0].(*ast.TypeAssertExpr); ok && exprString(ta.Type) == "*ErrUnknownIdentifier" && exprString(ifs.Cond) == "!ok" {
						n++
					}
				}
			}
			return true
		})
		// every `if err != nil {` in these functions must contain that guard
		bare := 0
		ast.Inspect(fd, func(nd ast.Node) bool {
			if ifs, ok := nd.(*ast.IfStmt); ok && exprString(ifs.Cond) == "err != nil" {
				guarded := false
				ast.Inspect(ifs.Body, func(m ast.Node) bool {
					if ta, ok := m.(*ast.TypeAssertExpr); ok && exprString(ta.Type) == "*ErrUnknownIdentifier" {
						guarded = true
					}
					return true
				})
				if !guarded {
					// `if err != nil { return nil, err }` is the strict form — also fine
					if len(ifs.Body.List) == 1 {
						if rs, ok := ifs.Body.List[0].(*ast.ReturnStmt); ok && len(rs.Results) == 2 && exprString(rs.Results[1]) == "err" {
							return true
						}
					}
					bare++
				}
			}
			return true
		})
		sites = append(sites, fmt.Sprintf("(%s, %d, %d)", strconv.Quote(name), n, bare))
	}
	sb.WriteString("/-- (function, number of `err.(*ErrUnknownIdentifier)`-guarded error checks, number of error checks that swallow any error) -/\n")
	fmt.Fprintf(&sb, "def tolerantSites : List (String × Nat × Nat) := [%s]\n\n", strings.Join(sites, ", "))
	sb.WriteString("end Plush.Gen\n")
	emit("Operators", "compiler.go", sha, sb.String())
}

func init() {
	extraGens = append(extraGens, gen{"Operators", "compiler.go", genOperators})
}
