package main

import (
	"fmt"
	"go/ast"
	"strconv"
	"strings"
)

// Gen/EvalDispatch.lean: the type switches by which the evaluator dispatches on AST node types —
// `evalExpression`, `evalStatement` — read off the source: per arm the node types and what the arm does
// (the evaluator method it calls, or the literal action).

func armAction(cc *ast.CaseClause) string {
	if len(cc.Body) == 0 {
		return "empty"
	}
	// `return c.evalX(s)` → evalX ; `return s.Value, nil` → value ; `return template.HTML(s.Value), nil` → html ;
	// `return continueObject{}, nil` → continueObject{} ; `return nil, nil` → nil ; anything longer → block:<calls>
	if len(cc.Body) == 1 {
		if rs, ok := cc.Body[0].(*ast.ReturnStmt); ok {
			if len(rs.Results) == 1 {
				if ce, ok := rs.Results[0].(*ast.CallExpr); ok {
					if se, ok := ce.Fun.(*ast.SelectorExpr); ok && exprString(se.X) == "c" {
						return se.Sel.Name
					}
				}
			}
			if len(rs.Results) == 2 && exprString(rs.Results[1]) == "nil" {
				return "return:" + exprString(rs.Results[0])
			}
		}
	}
	var calls []string
	for _, st := range cc.Body {
		ast.Inspect(st, func(n ast.Node) bool {
			if ce, ok := n.(*ast.CallExpr); ok {
				if se, ok := ce.Fun.(*ast.SelectorExpr); ok && exprString(se.X) == "c" {
					calls = append(calls, se.Sel.Name)
				}
			}
			return true
		})
	}
	return "block:" + strings.Join(calls, ",")
}

func switchArms(fn string) (rows []string, fallthroughErr bool) {
	_, f, _ := parseFile("compiler.go")
	fd := findFunc(f, fn)
	if fd == nil {
		fail("func %s not found", fn)
	}
	var ts *ast.TypeSwitchStmt
	for _, st := range fd.Body.List {
		if t, ok := st.(*ast.TypeSwitchStmt); ok {
			if ts != nil {
				fail("%s: more than one type switch", fn)
			}
			ts = t
		}
	}
	if ts == nil {
		fail("%s: no type switch", fn)
	}
	for _, c := range ts.Body.List {
		cc := c.(*ast.CaseClause)
		if cc.List == nil {
			fail("%s: default arm", fn)
		}
		var tys []string
		for _, e := range cc.List {
			tys = append(tys, strconv.Quote(exprString(e)))
		}
		rows = append(rows, fmt.Sprintf("  ([%s], %s)", strings.Join(tys, ", "), strconv.Quote(armAction(cc))))
	}
	// what follows the switch: `return nil, fmt.Errorf(...)`
	last := fd.Body.List[len(fd.Body.List)-1]
	if rs, ok := last.(*ast.ReturnStmt); ok && len(rs.Results) == 2 && strings.Contains(exprString(rs.Results[1]), "Errorf") {
		fallthroughErr = true
	}
	return
}

// kindSwitch: the arms of `switch <x>.Kind() { case reflect.Map: … }` in fn, and whether a pointer operand is
// dereferenced (`if <x>.Kind() == reflect.Ptr { <x> = <x>.Elem() }`) before it
func kindSwitch(fn string) (arms []string, hasDefault bool, derefs bool) {
	_, f, _ := parseFile("compiler.go")
	fd := findFunc(f, fn)
	if fd == nil {
		fail("func %s not found", fn)
	}
	var sw *ast.SwitchStmt
	for _, st := range fd.Body.List {
		switch t := st.(type) {
		case *ast.SwitchStmt:
			if t.Tag != nil && strings.HasSuffix(exprString(t.Tag), ".Kind(…)") || t.Tag != nil && strings.HasSuffix(exprString(t.Tag), ".Kind()") {
				if sw != nil {
					fail("%s: more than one kind switch", fn)
				}
				sw = t
			}
		case *ast.IfStmt:
			if sw == nil && strings.Contains(exprString(t.Cond), "reflect.Ptr") {
				for _, b := range t.Body.List {
					if as, ok := b.(*ast.AssignStmt); ok && len(as.Rhs) == 1 && strings.HasSuffix(exprString(as.Rhs[0]), ".Elem(…)") || ok && len(as.Rhs) == 1 && strings.HasSuffix(exprString(as.Rhs[0]), ".Elem()") {
						derefs = true
					}
				}
			}
		}
	}
	if sw == nil {
		fail("%s: no switch on a reflect kind", fn)
	}
	for _, c := range sw.Body.List {
		cc := c.(*ast.CaseClause)
		if cc.List == nil {
			hasDefault = true
			continue
		}
		var ks []string
		for _, e := range cc.List {
			ks = append(ks, strconv.Quote(exprString(e)))
		}
		arms = append(arms, "["+strings.Join(ks, ", ")+"]")
	}
	return
}

// ctxSwitchSites: every assignment that makes another context current (`<recv>.ctx = …` outside a defer), per
// function, and whether the same block has, before it, a `defer func() { <recv>.ctx = <saved> }()` that restores it
func ctxSwitchSites() []string {
	var rows []string
	for _, file := range []string{"compiler.go", "helper_context.go", "partial_helper.go", "template.go", "plush.go"} {
		_, f, _ := parseFile(file)
		for _, d := range f.Decls {
			fd, ok := d.(*ast.FuncDecl)
			if !ok || fd.Body == nil {
				continue
			}
			var walk func(b *ast.BlockStmt, inDefer bool, outer map[string]bool)
			walk = func(b *ast.BlockStmt, inDefer bool, outer map[string]bool) {
				// a defer registered earlier in an enclosing block covers the nested block too
				restored := map[string]bool{}
				for k, v := range outer {
					restored[k] = v
				}
				for _, st := range b.List {
					switch t := st.(type) {
					case *ast.DeferStmt:
						if fl, ok := t.Call.Fun.(*ast.FuncLit); ok {
							for _, ds := range fl.Body.List {
								if as, ok := ds.(*ast.AssignStmt); ok && len(as.Lhs) == 1 && strings.HasSuffix(exprString(as.Lhs[0]), ".ctx") {
									restored[exprString(as.Lhs[0])] = true
								}
							}
						}
					case *ast.AssignStmt:
						if !inDefer && len(t.Lhs) == 1 && strings.HasSuffix(exprString(t.Lhs[0]), ".ctx") && t.Tok.String() == "=" {
							rows = append(rows, fmt.Sprintf("  (%s, %v)", strconv.Quote(file+":"+fd.Name.Name), restored[exprString(t.Lhs[0])]))
						}
					}
					ast.Inspect(st, func(n ast.Node) bool {
						switch x := n.(type) {
						case *ast.FuncLit:
							return false // closures (incl. the deferred restores) are not walked as switch sites
						case *ast.BlockStmt:
							if x != b {
								walk(x, inDefer, restored)
								return false
							}
						}
						return true
					})
				}
			}
			walk(fd.Body, false, nil)
		}
	}
	return rows
}

// typeChecks: in fn, the reflect type predicates applied (method names on reflect.Type values), in source order
func typeChecks(fn string) []string {
	_, f, _ := parseFile("compiler.go")
	fd := findFunc(f, fn)
	if fd == nil {
		fail("func %s not found", fn)
	}
	var out []string
	ast.Inspect(fd.Body, func(n ast.Node) bool {
		if ce, ok := n.(*ast.CallExpr); ok {
			if se, ok := ce.Fun.(*ast.SelectorExpr); ok {
				switch se.Sel.Name {
				case "AssignableTo", "ConvertibleTo", "Convert", "CanConvert", "Implements":
					out = append(out, strconv.Quote(exprString(se.X)+"."+se.Sel.Name))
				}
			}
		}
		return true
	})
	return out
}

// errorfSites: every fmt.Errorf whose arguments mention an error variable (err / e), by file:function, and whether
// its format wraps it with %w (so that errors.Is / errors.As still see the cause)
func errorfSites() []string {
	var rows []string
	for _, file := range []string{"compiler.go", "helper_context.go", "partial_helper.go", "template.go", "plush.go", "helpers/content/for.go", "helpers/content/of.go"} {
		_, f, _ := parseFile(file)
		for _, d := range f.Decls {
			fd, ok := d.(*ast.FuncDecl)
			if !ok || fd.Body == nil {
				continue
			}
			ast.Inspect(fd.Body, func(n ast.Node) bool {
				ce, ok := n.(*ast.CallExpr)
				if !ok || exprString(ce.Fun) != "fmt.Errorf" || len(ce.Args) < 2 {
					return true
				}
				mentions := false
				for _, a := range ce.Args[1:] {
					if id, ok := a.(*ast.Ident); ok && (id.Name == "err" || id.Name == "e" || id.Name == "ferr") {
						mentions = true
					}
				}
				if mentions {
					format := ""
					if bl, ok := ce.Args[0].(*ast.BasicLit); ok {
						format = bl.Value
					}
					rows = append(rows, fmt.Sprintf("  (%s, %v)", strconv.Quote(file+":"+fd.Name.Name), strings.Contains(format, "%w")))
				}
				return true
			})
		}
	}
	return rows
}

// scopeOpenDepth: in fn, the block nesting depth (0 = the function body) of the statement that opens the new scope
// (`<recv>.ctx = <x>.New()`), or -1 when there is none
func scopeOpenDepth(file, fn string) int {
	_, f, _ := parseFile(file)
	fd := findFunc(f, fn)
	if fd == nil {
		fail("func %s not found", fn)
	}
	depth := -1
	var walk func(b *ast.BlockStmt, d int)
	walk = func(b *ast.BlockStmt, d int) {
		for _, st := range b.List {
			if as, ok := st.(*ast.AssignStmt); ok && len(as.Lhs) == 1 && strings.HasSuffix(exprString(as.Lhs[0]), ".ctx") &&
				len(as.Rhs) == 1 && strings.HasSuffix(exprString(as.Rhs[0]), ".New(…)") || ok && len(as.Lhs) == 1 && strings.HasSuffix(exprString(as.Lhs[0]), ".ctx") && len(as.Rhs) == 1 && strings.HasSuffix(exprString(as.Rhs[0]), ".New()") {
				if depth == -1 {
					depth = d
				}
			}
			ast.Inspect(st, func(n ast.Node) bool {
				switch x := n.(type) {
				case *ast.FuncLit:
					return false
				case *ast.BlockStmt:
					if x != b {
						walk(x, d+1)
						return false
					}
				}
				return true
			})
		}
	}
	walk(fd.Body, 0)
	return depth
}

func genEvalDispatch() {
	_, _, sha := parseFile("compiler.go")
	er, ee := switchArms("evalExpression")
	sr, se := switchArms("evalStatement")
	var sb strings.Builder
	fmt.Fprintf(&sb, header, "compiler.go (evalExpression, evalStatement)")
	sb.WriteString("namespace Plush.Gen\n\n/-- the arms of the type switch in `evalExpression`, in order: (node types, what the arm does) -/\n")
	sb.WriteString("def evalExpressionArms : List (List String × String) := [\n" + strings.Join(er, ",\n") + "\n]\n\n")
	fmt.Fprintf(&sb, "/-- a node type without an arm is an error (`could not evaluate node`), not a silent nil -/\ndef evalExpressionUnknownIsError : Bool := %v\n\n", ee)
	sb.WriteString("/-- the arms of the type switch in `evalStatement` -/\n")
	sb.WriteString("def evalStatementArms : List (List String × String) := [\n" + strings.Join(sr, ",\n") + "\n]\n\n")
	fmt.Fprintf(&sb, "def evalStatementUnknownIsError : Bool := %v\n\n", se)
	for _, fn := range []string{"evalForExpression", "evalAccessIndex", "evalUpdateIndex"} {
		arms, def, deref := kindSwitch(fn)
		fmt.Fprintf(&sb, "/-- `%s`: the arms of its switch on the operand's reflect kind; other kinds go to the default arm / the error below -/\n", fn)
		fmt.Fprintf(&sb, "def %sKinds : List (List String) := [%s]\n", fn, strings.Join(arms, ", "))
		fmt.Fprintf(&sb, "def %sHasDefault : Bool := %v\n", fn, def)
		fmt.Fprintf(&sb, "/-- a pointer operand is dereferenced before the switch -/\ndef %sDerefsPointer : Bool := %v\n\n", fn, deref)
	}
	sb.WriteString("/-- every place that makes another context current (`x.ctx = …`), by file:function, and whether a `defer` in the\n    same block restores the previous one (so that it is restored on the error paths too) -/\n")
	sb.WriteString("def ctxSwitchSites : List (String × Bool) := [\n" + strings.Join(ctxSwitchSites(), ",\n") + "\n]\n\n")
	sb.WriteString("/-- the reflect type predicates `evalCallExpression` applies while binding arguments and filling omitted parameters -/\n")
	sb.WriteString("def callTypeChecks : List String := [" + strings.Join(typeChecks("evalCallExpression"), ", ") + "]\n\n")
	sb.WriteString("/-- every `fmt.Errorf` that is handed an error variable, and whether it wraps it with %w -/\n")
	sb.WriteString("def errorfSites : List (String × Bool) := [\n" + strings.Join(errorfSites(), ",\n") + "\n]\n\n")
	sb.WriteString("/-- block depth (0 = the function body itself, i.e. unconditional) of the statement that opens the fresh scope -/\n")
	fmt.Fprintf(&sb, "def scopeOpenDepths : List (String × Int) := [(\"evalUserFunction\", %d), (\"evalForExpression\", %d), (\"evalIndexCallee\", %d)]\n\n",
		scopeOpenDepth("compiler.go", "evalUserFunction"), scopeOpenDepth("compiler.go", "evalForExpression"), scopeOpenDepth("compiler.go", "evalIndexCallee"))
	sb.WriteString("end Plush.Gen\n")
	emit("EvalDispatch", "compiler.go", sha, sb.String())
}

func init() {
	extraGens = append(extraGens, gen{"EvalDispatch", "compiler.go", genEvalDispatch})
}
